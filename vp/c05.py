"""C05 - compaction changes layout, never content (relational oracle before/after every round + crash
enumeration over the compaction step points)."""
import json
import random

from . import gen
from .hist import Lifetimes, must_ok
from .node import NodeDied, Inconclusive

RULE = ("history = 3 event types stored so that they live in different subsets of segments (A in every segment, B in every second, "
        "C once) x config (merge fan-in 2..4, zone size 1/2/5, fill 1..3, shards 1..2) x up to 6 deterministic compaction rounds with "
        "STOREs and FLUSHes between rounds; before and after every round Obs = {rows (k, ctx, payload, event_id) per type, REPLAY "
        "membership per context, COUNT / TOTAL / MIN / MAX} must be equal, COUNT must equal the distinct rows, and the live list / index "
        "must stop naming drained inputs; crash clause: every compaction step point x first/last hit, restart, Obs equal to the pre-round "
        "Obs, then a further round; failure clause: a directory planted where the compactor wants to create one output file of one "
        "event type (.zones/.idx/.col/.zfc) while the round is parked after creating its output directory, Obs equal after the failed "
        "run, after removing the obstacle + another round, and after restart; distinct_nontrivial counts distinct (round shape | crash point, config) observations with >=1 executed plan")

TYPES = {"ta": 'DEFINE ta FIELDS { k: "int", v: "string", n: "int" }',
         "tb": 'DEFINE tb FIELDS { k: "int", v: "string", n: "int" }',
         "tc": 'DEFINE tc FIELDS { k: "int", v: "string", n: "int" }'}


def gen_cfg(rng):
    return dict(shard_count=rng.choice([1, 1, 2]), event_per_zone=rng.choice([1, 2, 5]), fill_factor=rng.choice([1, 2, 3]),
                segments_per_merge=rng.choice([2, 2, 3, 4]))


def observe(node, ctxs, aggregates=True):
    obs = {}
    for t in TYPES:
        rep = node.cmd(f"QUERY {t}")
        if rep.rows is None:
            obs[t] = {"error": repr(rep)}
            continue
        rows = rep.dicts()
        obs[t] = {"rows": sorted((r.get("k"), r.get("context_id"), r.get("v"), r.get("n"), r.get("event_id")) for r in rows)}
        if aggregates:
            rc = node.cmd(f"QUERY {t} COUNT, TOTAL n, MIN n, MAX n")
            obs[t]["agg"] = rc.rows[0] if rc.rows else None
    obs["replay"] = {}
    for c in ctxs:
        for t in TYPES:
            rp = node.cmd(f"REPLAY {t} FOR {c}")
            obs["replay"][f"{t}/{c}"] = sorted((r.get("k"), r.get("event_type")) for r in rp.dicts()) if rp.rows is not None else None
    return obs


def diff_obs(a, b):
    out = []
    for t in TYPES:
        if a[t].get("rows") != b[t].get("rows"):
            ra, rb = a[t].get("rows") or [], b[t].get("rows") or []
            ka, kb = [r[0] for r in ra], [r[0] for r in rb]
            if sorted(set(ka)) != sorted(set(kb)):
                out.append(("rows_membership", t, f"missing={sorted(set(ka) - set(kb))[:8]} extra={sorted(set(kb) - set(ka))[:8]}"))
            elif len(kb) != len(set(kb)):
                out.append(("rows_duplicated", t, f"dups={[k for k in set(kb) if kb.count(k) > 1][:8]}"))
            else:
                da = {r[0]: r for r in ra}
                ch = [(da[r[0]], r) for r in rb if da.get(r[0]) != r][:3]
                out.append(("row_content_changed", t, f"{ch}"))
        if a[t].get("agg") != b[t].get("agg"):
            out.append(("aggregate_changed", t, f"{a[t].get('agg')} -> {b[t].get('agg')}"))
    for c in a["replay"]:
        if a["replay"][c] != b["replay"].get(c):
            out.append(("replay_membership", c, f"{a['replay'][c]} -> {b['replay'].get(c)}"))
    return out


def stale_uid_files(node):
    """True iff some segment named by the index still holds files of an event type that its index entry no longer lists
    (an input drained for that type only: the precondition of C05-retired-uid-files-still-aggregated)."""
    for sh in node.meta("fs"):
        idx = sh["index"] if isinstance(sh["index"], list) else []
        ent = {"%05d" % e["id"]: set(e["uids"]) for e in idx}
        for f in sh["files"]:
            if f.get("d"):
                continue
            parts = f["p"].split("/")
            if len(parts) != 2 or parts[0] not in ent:
                continue
            uid = parts[1].split(".")[0].split("_")[0]
            if len(uid) == 16 and uid not in ent[parts[0]]:
                return True
    return False


def check_double_read(obs, res, sig, witness, where):
    for t in TYPES:
        rows = obs[t].get("rows")
        agg = obs[t].get("agg")
        if rows is None or not agg:
            continue
        distinct = len({r[0] for r in rows})
        if len(rows) != distinct:
            res.violation("event_readable_twice", dict(sig, via="selection"), f"{where}: {t} rows={len(rows)} distinct={distinct}", witness)
        if isinstance(agg[0], int) and agg[0] != distinct:
            res.violation("aggregate_counts_twice" if agg[0] > distinct else "aggregate_undercounts", dict(sig, via="count"),
                          f"{where}: {t} COUNT={agg[0]} distinct rows={distinct}", witness)


def check_retired(node, results, res, sig, witness):
    """Drained inputs must no longer be named by the live list / index."""
    st = node.meta("state")
    for sh, r in zip(st, results[-len(st):]):
        if not r.get("ok") or not r.get("plan"):
            continue
        idx = sh["index"] if isinstance(sh["index"], list) else []
        named = {("%05d" % e["id"]): set(e["uids"]) for e in idx}
        for p in r["plan"]:
            for inp in p["inputs"]:
                if p["uid"] in named.get(inp, set()):
                    res.violation("retired_uid_still_indexed", sig, f"shard {sh['shard']}: input {inp} still lists uid {p['uid']} after the round", witness)
        for lbl in sh["live"]:
            if lbl not in named:
                res.violation("live_list_names_unindexed_segment", sig, f"shard {sh['shard']}: live {lbl} not in index {sorted(named)}", witness)


def build_history(rng, cfg, twin=False):
    cap = cfg["fill_factor"] * cfg["event_per_zone"]
    ctxs = ["c0", "c1", "c2", "c3"]
    steps, k = [], 0
    nseg = cfg["segments_per_merge"] * rng.randint(1, 2) + rng.randint(0, 2)
    c_done = False
    for seg in range(nseg):
        for _ in range(rng.randint(1, max(1, cap))):
            k += 1
            steps.append(("store", "ta", rng.choice(ctxs), k))
        if seg % 2 == 0 or twin:   # twin: tb lives in exactly the segments of ta, so both are compacted in one batch
            k += 1; steps.append(("store", "tb", rng.choice(ctxs), k))
        if not c_done and rng.random() < 0.4:
            k += 1; steps.append(("store", "tc", rng.choice(ctxs), k)); c_done = True
        steps.append(("flush",))
    return steps, ctxs, k


def apply_steps(node, steps):
    for s in steps:
        if s[0] == "store":
            _, t, c, k = s
            must_ok(node.cmd(gen.store_cmd(t, c, {"k": k, "v": f"v{k}", "n": (k * 7) % 11 - 3})), "store")
        else:
            must_ok(node.cmd("FLUSH", timeout=60), "flush")
    node.syncflush()


def rounds_task(task, wdir, res):
    rng = random.Random(task["seed"])
    cfg = gen_cfg(rng)
    steps, ctxs, k = build_history(rng, cfg)
    lt = Lifetimes(wdir, **cfg)
    node = lt.start()
    res.count("tasks"); res.count("histories")
    witness = {"seed": task["seed"], "config": cfg, "steps": steps, "mode": "rounds"}
    sig = {"mode": "rounds"}
    try:
        for d in TYPES.values():
            must_ok(node.cmd(d), "define")
        apply_steps(node, steps)
        all_results = []
        pending = []
        for rnd in range(6):
            before = observe(node, ctxs)
            stale_before = stale_uid_files(node)
            check_double_read(before, res, dict(sig, when="before_round", stale_uid_files=stale_before), witness, f"before round {rnd}")
            results = lt.compact_all(1)
            all_results += results
            nplans = sum(r.get("plans", 0) for r in results)
            failed = [r for r in results if r.get("plans") and not r.get("ok")]
            after = observe(node, ctxs)
            stale = stale_uid_files(node)
            res.evaluations += 1
            if nplans:
                res.nontrivial(("round", rnd, gen.cfg_desc(cfg), nplans, stale))
            for r in failed:
                res.violation("compaction_run_failed", dict(sig, panic="panic" in r), f"round {rnd}: {r.get('error') or r.get('panic')}", dict(witness, round=rnd))
            for rule, what, detail in diff_obs(before, after):
                if rule == "rows_membership":
                    kb = {r[0] for r in before[what].get("rows") or []}
                    ka = {r[0] for r in after[what].get("rows") or []}
                    pending.append((rnd, what, kb - ka, ka - kb, nplans))
                    continue
                # a value that was already inflated before the round and is right after it also "changes": either side counts
                res.violation(rule, dict(sig, after_failed_round=bool(failed), stale_uid_files=stale or stale_before), f"round {rnd} ({nplans} plans): {what}: {detail}", dict(witness, round=rnd))
            check_double_read(after, res, dict(sig, when="after_round", stale_uid_files=stale), dict(witness, round=rnd), f"after round {rnd}")
            check_retired(node, results, res, sig, dict(witness, round=rnd))
            if nplans == 0:
                break
            # keep writing between rounds
            extra = []
            for _ in range(rng.randint(0, 3)):
                k += 1; extra.append(("store", rng.choice(["ta", "tb"]), rng.choice(ctxs), k))
            if extra:
                extra.append(("flush",))   # aggregates over in-memory events ignore the event type (C09 finding): keep memory empty at Obs
            apply_steps(node, extra)
            witness["steps"] = witness["steps"] + [("round",)] + extra
        # after a clean restart the content is still the same
        before = observe(node, ctxs)
        node = lt.restart_clean()
        after = observe(node, ctxs)
        # rows that vanished in a round: transient (back after the restart = stale in-process state) or permanent?
        for rnd_, t, missing, extra, nplans_ in pending:
            final = {r[0] for r in after[t].get("rows") or []}
            perm = missing - final
            trans = missing & final
            if perm:
                res.violation("rows_membership", dict(sig, persistence="permanent"), f"round {rnd_}: {t}: k={sorted(perm)[:8]} gone and still missing after restart", dict(witness, round=rnd_))
            if trans:
                res.violation("rows_membership", dict(sig, persistence="transient_until_restart"), f"round {rnd_}: {t}: k={sorted(trans)[:8]} not returned until the process restarted", dict(witness, round=rnd_))
            if extra:
                res.violation("rows_membership", dict(sig, persistence="extra_rows"), f"round {rnd_}: {t}: k={sorted(extra)[:8]} appeared in the round", dict(witness, round=rnd_))
        for rule, what, detail in diff_obs(before, after):
            if rule == "rows_membership":
                kb = {r[0] for r in before[what].get("rows") or []}
                ka = {r[0] for r in after[what].get("rows") or []}
                if kb - ka:
                    res.violation(rule, dict(sig, phase="restart_after_rounds", persistence="lost_by_restart"), f"after restart: {what}: {detail}", witness)
                continue   # rows coming back are reported above as transient
            res.violation(rule, dict(sig, phase="restart_after_rounds", stale_uid_files=stale_uid_files(node)), f"after restart: {what}: {detail}", witness)
        res.sample({"config": cfg, "segments_flushed": sum(1 for s in steps if s[0] == "flush"), "rounds": rnd + 1})
    finally:
        lt.stop()


def crash_dry_task(task, wdir, res):
    rng = random.Random(task["seed"])
    cfg = gen_cfg(rng)
    steps, ctxs, k = build_history(rng, cfg)
    lt = Lifetimes(wdir, **cfg)
    node = lt.start()
    res.count("tasks")
    try:
        for d in TYPES.values():
            must_ok(node.cmd(d), "define")
        apply_steps(node, steps)
        node.meta("trace on")
        lt.compact_all(1)
        import time
        time.sleep(0.3)   # reclaim runs in a spawned blocking task
        tr = node.meta("trace take")["trace"]
        pts = {}
        for ent in tr:
            name = ent[0]
            if name.split(".")[0] in ("cw", "mc", "ho", "rc", "zw", "idx"):
                pts[name] = pts.get(name, 0) + 1
        res.add_set("plan", json.dumps([task["seed"], sorted(pts.items())]))
    finally:
        lt.stop()


def crash_task(task, wdir, res):
    rng = random.Random(task["seed"])
    cfg = gen_cfg(rng)
    steps, ctxs, k = build_history(rng, cfg)
    lt = Lifetimes(wdir, **cfg)
    node = lt.start()
    res.count("tasks"); res.count("crash_runs")
    witness = {"seed": task["seed"], "config": cfg, "steps": steps, "mode": "crash", "crash": [task["point"], task["nth"]]}
    sig = {"mode": "crash", "group": task["point"].split(".")[0]}
    try:
        for d in TYPES.values():
            must_ok(node.cmd(d), "define")
        apply_steps(node, steps)
        before = observe(node, ctxs, aggregates=False)
        node.meta(f"arm {task['point']} {task['nth']} crash")
        fired = False
        try:
            lt.compact_all(1)
            import time
            time.sleep(0.3)
            node.meta("ping")
        except NodeDied as e:
            fired = e.code == 137
        if not fired:
            res.count("armed_but_not_fired")
            node.kill()
        else:
            res.nontrivial(("crash", task["point"], gen.cfg_desc(cfg)))
            res.add_set("points_fired", task["point"])
        node = lt.start()
        # aggregates are not compared across a crash restart: WAL replay next to published segments double-counts (C01 finding)
        after = observe(node, ctxs, aggregates=False)
        res.evaluations += 1
        for rule, what, detail in diff_obs(before, after):
            res.violation(rule, dict(sig, phase="after_crash_restart"), f"crash at {task['point']}#{task['nth']}: {what}: {detail}", witness)
        check_double_read(after, res, dict(sig, when="after_crash_restart"), witness, "after crash restart")
        # a further round (the crashed round may have left an output directory that the next plan re-targets)
        results = lt.compact_all(1)
        failed = [r for r in results if r.get("plans") and not r.get("ok")]
        for r in failed:
            res.violation("compaction_run_failed", dict(sig, phase="round_after_crash", panic="panic" in r), f"{r.get('error') or r.get('panic')}", witness)
        after2 = observe(node, ctxs, aggregates=False)
        for rule, what, detail in diff_obs(before, after2):
            res.violation(rule, dict(sig, phase="round_after_crash"), f"crash at {task['point']}#{task['nth']} then another round: {what}: {detail}", witness)
        check_double_read(after2, res, dict(sig, when="round_after_crash"), witness, "round after crash")
        res.sample({"config": cfg, "crash": [task["point"], task["nth"]], "fired": fired})
    finally:
        lt.stop()


def failure_task(task, wdir, res):
    """A compaction run that fails for one event type of a batch (its output file cannot be created): the previous answers
    still hold, in the same process, after the obstacle is gone and a further round ran, and after a restart."""
    import os
    import time
    rng = random.Random(task["seed"])
    cfg = dict(gen_cfg(rng), shard_count=1)
    steps, ctxs, k = build_history(rng, cfg, twin=task["nth"] == 1)
    lt = Lifetimes(wdir, **cfg)
    node = lt.start()
    res.count("tasks"); res.count("failure_runs")
    kind = task["kind"]
    witness = {"seed": task["seed"], "config": cfg, "steps": steps, "mode": "failure", "kind": kind, "nth": task["nth"]}
    sig = {"mode": "failure", "obstacle": kind}
    try:
        for d in TYPES.values():
            must_ok(node.cmd(d), "define")
        apply_steps(node, steps)
        before = observe(node, ctxs)
        st = node.meta("state")[0]
        idx = st["index"] if isinstance(st["index"], list) else []
        uids = sorted({u for e in idx for u in e["uids"]})
        if not uids:
            return
        uid = rng.choice(uids)
        node.meta("arm mc.out_dir_created 0 pause")     # every batch parks after creating its output directory
        node.meta("compactbg 0")
        planted = []
        name = {"zones": f"{uid}.zones", "idx": f"{uid}.idx", "col_k": f"{uid}_k.col", "col_ts": f"{uid}_timestamp.col",
                "zfc_ctx": f"{uid}_context_id.zfc"}[kind]
        for _ in range(12):
            rep = node.meta("waitparkedat mc.out_dir_created 3000")
            if not rep.get("ok"):
                break
            for n, a in rep.get("parked", []):
                if n != "mc.out_dir_created":
                    continue
                pth = os.path.join(wdir, "cols", "shard-0", "%05d" % a, name)
                try:
                    os.mkdir(pth)     # a directory where the compactor wants to create a file of that event type
                    planted.append(pth)
                except OSError:
                    pass
            node.meta("release mc.out_dir_created")
            time.sleep(0.02)
        if not planted:
            res.count("point_not_reached")
        node.meta("disarmpoint mc.out_dir_created"); node.meta("release mc.out_dir_created")
        node._send("@wait compact-0 60000")
        _, body = node._read_frame(90)
        try:
            result = json.loads(body.decode("utf-8", "replace"))
        except ValueError:
            result = {"raw": body.decode("utf-8", "replace")[:300]}
        witness["compaction"] = json.dumps(result)[:600]
        failed = bool(result.get("plans")) and not result.get("ok")
        time.sleep(0.2)
        after = observe(node, ctxs)
        res.evaluations += 1
        if failed:
            res.nontrivial(("failure", kind, gen.cfg_desc(cfg)))
            res.add_set("failed_runs", kind)
        phase_sig = dict(sig, run_failed=failed, stale_uid_files=stale_uid_files(node))
        for rule, what, detail in diff_obs(before, after):
            res.violation(rule, dict(phase_sig, phase="after_failed_run"), f"obstacle {kind} for uid {uid} ({'run failed' if failed else 'run ok'}): {what}: {detail}", witness)
        check_double_read(after, res, dict(phase_sig, when="after_failed_run"), witness, "after failed run")
        for pth in planted:
            try:
                os.rmdir(pth)
            except OSError:
                pass
        results = lt.compact_all(1)
        for r in results:
            if r.get("plans") and not r.get("ok"):
                res.violation("compaction_run_failed", dict(phase_sig, phase="round_after_failure", panic="panic" in r), f"{r.get('error') or r.get('panic')}", witness)
        time.sleep(0.2)
        after2 = observe(node, ctxs)
        phase_sig = dict(phase_sig, stale_uid_files=stale_uid_files(node))
        for rule, what, detail in diff_obs(before, after2):
            res.violation(rule, dict(phase_sig, phase="round_after_failure"), f"obstacle {kind} for uid {uid}, removed, another round: {what}: {detail}", witness)
        check_double_read(after2, res, dict(phase_sig, when="round_after_failure"), witness, "round after failure")
        node = lt.restart_clean()
        after3 = observe(node, ctxs)
        phase_sig = dict(phase_sig, stale_uid_files=stale_uid_files(node))
        for rule, what, detail in diff_obs(before, after3):
            res.violation(rule, dict(phase_sig, phase="restart_after_failure"), f"obstacle {kind} for uid {uid}, then restart: {what}: {detail}", witness)
        res.sample({"config": cfg, "mode": "failure", "obstacle": kind, "failed": failed, "compaction": witness["compaction"][:160]})
    finally:
        lt.stop()


FAIL_KINDS = ["zones", "idx", "col_k", "col_ts", "zfc_ctx"]


def run(run):
    quick = run.tier == "quick"
    nf = 20 if quick else 200
    run.parallel(failure_task, [{"name": f"f{i}", "seed": run.rng("fail", i).getrandbits(40), "kind": FAIL_KINDS[i % len(FAIL_KINDS)],
                                 "nth": 1 + (i // len(FAIL_KINDS)) % 2} for i in range(nf)])
    n = 32 if quick else 200
    run.parallel(rounds_task, [{"name": f"r{i}", "seed": run.rng("rounds", i).getrandbits(40)} for i in range(n)])
    nd = 3 if quick else 40
    run.parallel(crash_dry_task, [{"name": f"d{i}", "seed": run.rng("crash", i).getrandbits(40)} for i in range(nd)])
    plans = [json.loads(x) for x in run.result.sets.pop("plan", set())]
    tasks = []
    for seed, pts in sorted(plans):
        for point, count in pts:
            for nth in sorted({1, count}):
                tasks.append({"name": f"c-{point}-{nth}", "seed": seed, "point": point, "nth": nth})
    run.result.counters["planned_crash_runs"] = len(tasks)
    run.min_distinct = 25
    run.assumptions = ["deterministic rounds re-state compactor/background.rs minus timer and pressure gates (see DESIGN 2.3)",
                       "Obs compared at quiescent points (all flushes awaited)"]
    run.parallel(crash_task, tasks)


def replay(run, path):
    with open(path) as f:
        w = json.load(f)["witness"]
    if w.get("mode") == "failure":
        run.parallel(failure_task, [{"name": "replay", "seed": w["seed"], "kind": w["kind"], "nth": w["nth"]}], nproc=1)
    elif w.get("mode") == "crash":
        run.parallel(crash_task, [{"name": "replay", "seed": w["seed"], "point": w["crash"][0], "nth": w["crash"][1]}], nproc=1)
    else:
        run.parallel(rounds_task, [{"name": "replay", "seed": w["seed"]}], nproc=1)
