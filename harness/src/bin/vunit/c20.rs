//! C20 direct monitor: one generated result (schema + batches of ScalarValue cells) is written by the real QueryResponseWriter
//! through JsonRenderer, UnixRenderer and ArrowRenderer; the Arrow stream is decoded here with arrow-ipc's StreamReader (independent
//! of the encoder), the two text streams are returned verbatim (base64) for the python oracle, which parses them with its own json.
//! input: {"cases":[{"columns":[{"name","logical_type"}],"batches":[[[cell,..],..],..],"limit":n|null,"offset":n|null}],
//!         "decode_arrow":[base64 streams]}      cell = {"t":"n"} | {"t":"i","v":int} | {"t":"f","v":num|"nan"|"inf"|"-inf"} |
//!                                                       {"t":"s","v":str} | {"t":"b","v":bool} | {"t":"ts","v":int} | {"t":"bin","v":[bytes]}
use arrow_array::{Array, BooleanArray, Float64Array, Int64Array, LargeStringArray, StringArray, TimestampMillisecondArray};
use arrow_ipc::reader::StreamReader;
use serde_json::{Value, json};
use snel_db::command::handlers::query::QueryResponseWriter;
use snel_db::command::handlers::query_batch_stream::QueryBatchStream;
use snel_db::engine::core::read::flow::{BatchPool, BatchSchema, FlowChannel, FlowMetrics};
use snel_db::engine::core::read::result::ColumnSpec;
use snel_db::engine::types::ScalarValue;
use snel_db::shared::response::render::Renderer;
use snel_db::shared::response::{ArrowRenderer, JsonRenderer, UnixRenderer};
use std::io::Cursor;
use std::sync::Arc;

fn b64(bytes: &[u8]) -> String {
    const T: &[u8; 64] = b"ABCDEFGHIJKLMNOPQRSTUVWXYZabcdefghijklmnopqrstuvwxyz0123456789+/";
    let mut out = String::with_capacity(bytes.len() * 4 / 3 + 4);
    for ch in bytes.chunks(3) {
        let b = [ch[0], *ch.get(1).unwrap_or(&0), *ch.get(2).unwrap_or(&0)];
        let n = ((b[0] as u32) << 16) | ((b[1] as u32) << 8) | b[2] as u32;
        out.push(T[(n >> 18) as usize & 63] as char);
        out.push(T[(n >> 12) as usize & 63] as char);
        out.push(if ch.len() > 1 { T[(n >> 6) as usize & 63] as char } else { '=' });
        out.push(if ch.len() > 2 { T[n as usize & 63] as char } else { '=' });
    }
    out
}

fn unb64(s: &str) -> Vec<u8> {
    let mut out = Vec::new();
    let mut buf = 0u32;
    let mut bits = 0;
    for c in s.bytes() {
        let v = match c {
            b'A'..=b'Z' => c - b'A',
            b'a'..=b'z' => c - b'a' + 26,
            b'0'..=b'9' => c - b'0' + 52,
            b'+' => 62,
            b'/' => 63,
            _ => continue,
        } as u32;
        buf = (buf << 6) | v;
        bits += 6;
        if bits >= 8 {
            bits -= 8;
            out.push((buf >> bits) as u8);
            buf &= (1 << bits) - 1;
        }
    }
    out
}

fn cell_of(v: &Value) -> ScalarValue {
    match v["t"].as_str().unwrap_or("n") {
        "i" => ScalarValue::Int64(v["v"].as_i64().unwrap_or(0)),
        "ts" => ScalarValue::Timestamp(v["v"].as_i64().unwrap_or(0)),
        "f" => ScalarValue::Float64(match &v["v"] {
            Value::String(s) if s == "nan" => f64::NAN,
            Value::String(s) if s == "inf" => f64::INFINITY,
            Value::String(s) if s == "-inf" => f64::NEG_INFINITY,
            x => x.as_f64().unwrap_or(0.0),
        }),
        "s" => ScalarValue::Utf8(v["v"].as_str().unwrap_or("").to_string()),
        "b" => ScalarValue::Boolean(v["v"].as_bool().unwrap_or(false)),
        "bin" => ScalarValue::Binary(v["v"].as_array().map(|a| a.iter().map(|x| x.as_u64().unwrap_or(0) as u8).collect()).unwrap_or_default()),
        _ => ScalarValue::Null,
    }
}

fn fjson(f: f64) -> Value {
    if f.is_nan() {
        json!("nan")
    } else if f.is_infinite() {
        json!(if f > 0.0 { "inf" } else { "-inf" })
    } else {
        json!(f)
    }
}

pub fn decode_arrow(bytes: &[u8]) -> Value {
    let reader = match StreamReader::try_new(Cursor::new(bytes.to_vec()), None) {
        Ok(r) => r,
        Err(e) => return json!({"error": format!("open: {e}")}),
    };
    let schema = reader.schema();
    let cols: Vec<String> = schema.fields().iter().map(|f| f.name().clone()).collect();
    let types: Vec<String> = schema.fields().iter().map(|f| format!("{:?}", f.data_type())).collect();
    let mut rows: Vec<Value> = Vec::new();
    let mut batches = 0u64;
    for rb in reader {
        let rb = match rb {
            Ok(b) => b,
            Err(e) => return json!({"error": format!("batch {batches}: {e}"), "cols": cols, "rows": rows}),
        };
        batches += 1;
        for r in 0..rb.num_rows() {
            let mut row = Vec::new();
            for c in 0..rb.num_columns() {
                let col = rb.column(c);
                let cell = if col.is_null(r) {
                    json!({"t": "n"})
                } else if let Some(a) = col.as_any().downcast_ref::<Int64Array>() {
                    json!({"t": "i", "v": a.value(r)})
                } else if let Some(a) = col.as_any().downcast_ref::<Float64Array>() {
                    json!({"t": "f", "v": fjson(a.value(r))})
                } else if let Some(a) = col.as_any().downcast_ref::<BooleanArray>() {
                    json!({"t": "b", "v": a.value(r)})
                } else if let Some(a) = col.as_any().downcast_ref::<LargeStringArray>() {
                    json!({"t": "s", "v": a.value(r)})
                } else if let Some(a) = col.as_any().downcast_ref::<StringArray>() {
                    json!({"t": "s", "v": a.value(r)})
                } else if let Some(a) = col.as_any().downcast_ref::<TimestampMillisecondArray>() {
                    json!({"t": "ts_ms", "v": a.value(r)})
                } else {
                    json!({"t": "other", "v": format!("{:?}", col.data_type())})
                };
                row.push(cell);
            }
            rows.push(Value::Array(row));
        }
    }
    json!({"cols": cols, "types": types, "rows": rows, "record_batches": batches})
}

async fn run_one(case: &Value, renderer: &dyn Renderer) -> Result<Vec<u8>, String> {
    let specs: Vec<ColumnSpec> = case["columns"]
        .as_array()
        .map(|a| {
            a.iter()
                .map(|c| ColumnSpec { name: c["name"].as_str().unwrap_or("").to_string(), logical_type: c["logical_type"].as_str().unwrap_or("String").to_string() })
                .collect()
        })
        .unwrap_or_default();
    let schema = Arc::new(BatchSchema::new(specs).map_err(|e| format!("schema: {e:?}"))?);
    let metrics = FlowMetrics::new();
    let empty = Vec::new();
    let batches = case["batches"].as_array().unwrap_or(&empty);
    let (tx, rx) = FlowChannel::bounded(batches.len().max(1) + 4, Arc::clone(&metrics));
    let pool = BatchPool::new(4096).map_err(|e| format!("pool: {e:?}"))?;
    for rows in batches {
        let mut b = pool.acquire(Arc::clone(&schema));
        for row in rows.as_array().unwrap_or(&empty) {
            let cells: Vec<ScalarValue> = row.as_array().map(|r| r.iter().map(cell_of).collect()).unwrap_or_default();
            b.push_row(&cells).map_err(|e| format!("push_row: {e:?}"))?;
        }
        let fin = b.finish().map_err(|e| format!("finish: {e:?}"))?;
        tx.send(Arc::new(fin)).await.map_err(|e| format!("send: {e:?}"))?;
    }
    drop(tx);
    let stream = QueryBatchStream::verif_from_parts(Arc::clone(&schema), rx, Vec::new());
    let mut out: Vec<u8> = Vec::new();
    let limit = case["limit"].as_u64().map(|x| x as u32);
    let offset = case["offset"].as_u64().map(|x| x as u32);
    QueryResponseWriter::new(&mut out, renderer, schema, limit, offset).write(stream).await.map_err(|e| format!("write: {e:?}"))?;
    Ok(out)
}

pub fn run(input: &Value) -> Value {
    let rt = tokio::runtime::Builder::new_multi_thread().worker_threads(2).enable_all().build().expect("rt");
    let empty = Vec::new();
    let mut out_cases = Vec::new();
    for case in input["cases"].as_array().unwrap_or(&empty) {
        let mut o = serde_json::Map::new();
        for (name, r) in [("json", &JsonRenderer as &dyn Renderer), ("unix", &UnixRenderer as &dyn Renderer), ("arrow", &ArrowRenderer as &dyn Renderer)] {
            let res = std::panic::catch_unwind(std::panic::AssertUnwindSafe(|| rt.block_on(run_one(case, r))));
            let v = match res {
                Err(_) => json!({"panic": true}),
                Ok(Err(e)) => json!({"error": e}),
                Ok(Ok(bytes)) => {
                    if name == "arrow" {
                        let mut d = decode_arrow(&bytes);
                        d["bytes"] = json!(bytes.len());
                        d
                    } else {
                        json!({"b64": b64(&bytes)})
                    }
                }
            };
            o.insert(name.to_string(), v);
        }
        out_cases.push(Value::Object(o));
    }
    let decoded: Vec<Value> = input["decode_arrow"].as_array().unwrap_or(&empty).iter().map(|s| decode_arrow(&unb64(s.as_str().unwrap_or("")))).collect();
    json!({"cases": out_cases, "decoded": decoded})
}
