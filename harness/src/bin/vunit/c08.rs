//! C08 direct monitor: on a flushed / compacted shard directory, report (a) which key values sit in which
//! zone (read through the repo's column reader) and (b) the candidate zones every pruning structure returns for
//! each probe, through the pruners the query path uses.
use serde_json::{Value, json};
use snel_db::command::types::CompareOp;
use snel_db::engine::core::zone::selector::pruner::enum_pruner::EnumPruner;
use snel_db::engine::core::zone::selector::pruner::range_pruner::RangePruner;
use snel_db::engine::core::zone::selector::pruner::temporal_pruner::TemporalPruner;
use snel_db::engine::core::zone::selector::pruner::xor_pruner::XorPruner;
use snel_db::engine::core::zone::selector::pruner::{PruneArgs, ZonePruner};
use snel_db::engine::core::zone::zone_artifacts::ZoneArtifacts;
use snel_db::engine::core::{CandidateZone, ColumnReader, ZoneMeta};
use snel_db::engine::types::ScalarValue;
use std::path::PathBuf;

fn op_of(s: &str) -> CompareOp {
    match s {
        "=" => CompareOp::Eq,
        "!=" => CompareOp::Neq,
        ">" => CompareOp::Gt,
        ">=" => CompareOp::Gte,
        "<" => CompareOp::Lt,
        _ => CompareOp::Lte,
    }
}

fn zones_json(z: Option<Vec<CandidateZone>>) -> Value {
    match z {
        None => Value::Null,
        Some(v) => {
            let mut ids: Vec<u32> = v.iter().map(|c| c.zone_id).collect();
            ids.sort_unstable();
            ids.dedup();
            json!(ids)
        }
    }
}

pub fn run(input: &Value) -> Value {
    let base_dir = PathBuf::from(input["base_dir"].as_str().unwrap_or(""));
    let uid = input["uid"].as_str().unwrap_or("").to_string();
    let event_type = input["event_type"].as_str().unwrap_or("").to_string();
    let key_field = input["key_field"].as_str().unwrap_or("k").to_string();
    let mut segments: Vec<String> = std::fs::read_dir(&base_dir)
        .map(|rd| {
            rd.flatten()
                .filter(|e| e.path().is_dir())
                .map(|e| e.file_name().to_string_lossy().to_string())
                .filter(|n| n.chars().all(|c| c.is_ascii_digit()))
                .collect()
        })
        .unwrap_or_default();
    segments.sort();
    if let Some(only) = input["segments"].as_array() {
        let only: Vec<String> = only.iter().filter_map(|v| v.as_str().map(|s| s.to_string())).collect();
        segments.retain(|s| only.contains(s));
    }
    let mut zones_out = serde_json::Map::new();
    let mut files_out = serde_json::Map::new();
    for seg in &segments {
        let seg_dir = base_dir.join(seg);
        let Ok(metas) = ZoneMeta::load(&seg_dir.join(format!("{}.zones", uid))) else {
            continue;
        };
        let mut per_zone = serde_json::Map::new();
        for m in &metas {
            let ks = ColumnReader::load_for_zone(&seg_dir, seg, &uid, &key_field, m.zone_id)
                .map(|v| json!(v))
                .unwrap_or_else(|e| json!({"error": format!("{e:?}")}));
            let ctxs = ColumnReader::load_for_zone(&seg_dir, seg, &uid, "context_id", m.zone_id)
                .map(|v| json!(v))
                .unwrap_or(Value::Null);
            per_zone.insert(m.zone_id.to_string(), json!({"k": ks, "ctx": ctxs}));
        }
        zones_out.insert(seg.clone(), Value::Object(per_zone));
        let mut names: Vec<String> = std::fs::read_dir(&seg_dir)
            .map(|rd| rd.flatten().map(|e| e.file_name().to_string_lossy().to_string()).collect())
            .unwrap_or_default();
        names.sort();
        files_out.insert(seg.clone(), json!(names));
    }
    let mut probes_out = Vec::new();
    let empty = Vec::new();
    for p in input["probes"].as_array().unwrap_or(&empty) {
        let column = p["column"].as_str().unwrap_or("");
        let op = op_of(p["op"].as_str().unwrap_or("="));
        let value = ScalarValue::from(p["value"].clone());
        let mut per_seg = serde_json::Map::new();
        for seg in zones_out.keys() {
            let args = PruneArgs {
                segment_id: seg,
                uid: &uid,
                column,
                value: Some(&value),
                op: Some(&op),
            };
            let mut res = serde_json::Map::new();
            let run_one = |f: &dyn Fn() -> Option<Vec<CandidateZone>>| -> Value {
                match std::panic::catch_unwind(std::panic::AssertUnwindSafe(f)) {
                    Ok(z) => zones_json(z),
                    Err(_) => json!({"panic": true}),
                }
            };
            res.insert(
                "surf".into(),
                run_one(&|| RangePruner { artifacts: ZoneArtifacts::new(&base_dir, None) }.apply_surf_only(&args)),
            );
            res.insert(
                "zxf".into(),
                run_one(&|| XorPruner { artifacts: ZoneArtifacts::new(&base_dir, None) }.apply_zone_index_only(&args)),
            );
            res.insert(
                "xf".into(),
                run_one(&|| XorPruner { artifacts: ZoneArtifacts::new(&base_dir, None) }.apply_presence_only(&args)),
            );
            res.insert(
                "ebm".into(),
                run_one(&|| EnumPruner { artifacts: ZoneArtifacts::new(&base_dir, None) }.apply(&args)),
            );
            if p["temporal"].as_bool().unwrap_or(false) {
                res.insert(
                    "temporal".into(),
                    run_one(&|| TemporalPruner { artifacts: ZoneArtifacts::new(&base_dir, None) }.apply_temporal_only(&args)),
                );
            }
            if column == "context_id" {
                let art = ZoneArtifacts::new(&base_dir, None);
                let v = match art.load_zone_index(seg, &uid) {
                    Ok(idx) => zones_json(Some(idx.find_candidate_zones(
                        &event_type,
                        value.as_str(),
                        seg,
                    ))),
                    Err(e) => json!({"error": e}),
                };
                res.insert("ctxidx".into(), v);
            }
            per_seg.insert(seg.clone(), Value::Object(res));
        }
        probes_out.push(json!({"id": p["id"], "result": per_seg}));
    }
    json!({"zones": zones_out, "files": files_out, "probes": probes_out})
}
