"""Driver for the `vnode` engine process: configuration, spawn/kill/restart, framing, history log."""
import json
import os
import select
import signal
import subprocess
import time

VERIF = os.path.dirname(os.path.dirname(os.path.abspath(__file__)))
BIN_DIR = os.path.join(VERIF, "target", "verif")
VNODE = os.path.join(BIN_DIR, "vnode")
VUNIT = os.path.join(BIN_DIR, "vunit")
VSERVER = os.path.join(BIN_DIR, "vserver")

DEFAULTS = dict(
    fill_factor=2, event_per_zone=2, shard_count=2, segments_per_merge=2,
    flush_each_write=True, buffered=True, conservative_mode=False,
    max_inflight_passives=8, compaction_interval=100000, streaming_batch_size=None,
    timezone="UTC", week_start="Mon", bypass_auth=True, admin_user=None, admin_key=None,
    token_expiry=300, tcp_port=0, http_port=0, ws_port=0, use_calendar_bucketing=True,
)


class Inconclusive(Exception):
    """Harness-level problem (watchdog, spawn failure): never a violation."""


class NodeDied(Exception):
    def __init__(self, code, stderr_tail=""):
        super().__init__(f"vnode exited with {code}")
        self.code = code
        self.stderr_tail = stderr_tail


def write_config(root, **kw):
    """Write a sneldb config under `root` (absolute dirs) and return its path (without .toml)."""
    c = dict(DEFAULTS)
    c.update(kw)
    os.makedirs(root, exist_ok=True)
    for d in ("cols", "wal", "wal_archive", "schema", "index", "logs"):
        os.makedirs(os.path.join(root, d), exist_ok=True)
    b = lambda x: "true" if x else "false"
    q_extra = ""
    if c["streaming_batch_size"] is not None:
        q_extra = f"streaming_batch_size = {c['streaming_batch_size']}\n"
    auth_extra = ""
    if c["admin_user"]:
        auth_extra += f'initial_admin_user = "{c["admin_user"]}"\ninitial_admin_key = "{c["admin_key"]}"\n'
    toml = f"""
[wal]
enabled = true
fsync = false
buffered = {b(c['buffered'])}
buffer_size = "100KB"
dir = "{root}/wal/"
flush_each_write = {b(c['flush_each_write'])}
fsync_every_n = 1024
conservative_mode = {b(c['conservative_mode'])}
archive_dir = "{root}/wal_archive/"
compression_level = 3
compression_algorithm = "zstd"

[engine]
fill_factor = {c['fill_factor']}
data_dir = "{root}/cols"
index_dir = "{root}/index/"
shard_count = {c['shard_count']}
event_per_zone = {c['event_per_zone']}
compaction_interval = {c['compaction_interval']}
sys_io_threshold = 100000
sys_memory_threshold_mb = "1MB"
max_inflight_passives = {c['max_inflight_passives']}
segments_per_merge = {c['segments_per_merge']}
compaction_max_shard_concurrency = 1

[schema]
def_dir = "{root}/schema/"

[server]
socket_path = "{root}/sneldb.sock"
log_level = "error"
output_format = "json"
tcp_addr = "127.0.0.1:{c['tcp_port']}"
http_addr = "127.0.0.1:{c['http_port']}"
ws_addr = "127.0.0.1:{c['ws_port']}"
auth_token = "verif"

[playground]
enabled = false
allow_unauthenticated = false

[auth]
bypass_auth = {b(c['bypass_auth'])}
rate_limit_enabled = false
session_token_expiry_seconds = {c['token_expiry']}
{auth_extra}
[logging]
log_dir = "{root}/logs"
stdout_level = "error"
file_level = "error"

[query]
zone_index_cache_max_entries = 256
column_block_cache_max_bytes = "64MB"
zone_surf_cache_max_bytes = "10MB"
{q_extra}
[time]
timezone = "{c['timezone']}"
week_start = "{c['week_start']}"
use_calendar_bucketing = {b(c['use_calendar_bucketing'])}
"""
    path = os.path.join(root, "config.toml")
    with open(path, "w") as f:
        f.write(toml)
    return os.path.join(root, "config"), c


class Node:
    """One vnode process = one lifetime. `history` (list) receives every op as a dict."""

    def __init__(self, root, history=None, lifetime=0, env=None, binary=None, watchdog=30.0, **cfg):
        self.root = root
        self.cfg_path, self.cfg = write_config(root, **cfg)
        self.history = history if history is not None else []
        self.lifetime = lifetime
        self.watchdog = watchdog
        self.proc = None
        self.exit_code = None
        self.env = dict(os.environ)
        self.env["SNELDB_CONFIG"] = self.cfg_path
        self.env.setdefault("RUST_BACKTRACE", "0")
        if env:
            self.env.update(env)
        self.binary = binary or os.environ.get("VERIF_VNODE") or VNODE
        self.stderr_path = os.path.join(root, f"stderr-{lifetime}.log")
        self.op_counter = 0

    # -- process control -----------------------------------------------------------------
    def start(self):
        self.stderr_f = open(self.stderr_path, "wb")
        self.proc = subprocess.Popen(
            [self.binary], stdin=subprocess.PIPE, stdout=subprocess.PIPE, stderr=self.stderr_f,
            env=self.env, cwd=self.root, bufsize=0)
        kind, body = self._read_frame(timeout=float(os.environ.get("VERIF_NODE_START_TIMEOUT", "60")))
        if kind != "meta":
            raise Inconclusive(f"vnode did not become ready: {kind} {body[:200]!r}")
        return self

    def stderr_tail(self, n=2000):
        try:
            with open(self.stderr_path, "rb") as f:
                data = f.read().decode("utf-8", "replace")
        except OSError:
            return ""
        i = data.find("ERROR: AddressSanitizer")
        if i < 0:
            i = data.find("ERROR: LeakSanitizer")
        if i >= 0:
            return data[max(0, i - 50):i + 4000]          # the sanitizer report starts here; keep its head (error line + stack)
        return data[-n:]

    def panics(self):
        out = []
        try:
            with open(self.stderr_path, "rb") as f:
                for line in f.read().decode("utf-8", "replace").splitlines():
                    if line.startswith("VERIF-PANIC"):
                        out.append(line)
        except OSError:
            pass
        return out

    def kill(self):
        """SIGKILL (crash while idle / at a random instant)."""
        if self.proc and self.proc.poll() is None:
            self.proc.send_signal(signal.SIGKILL)
        self._reap()

    def _reap(self):
        if self.proc:
            try:
                self.proc.wait(timeout=20)
            except subprocess.TimeoutExpired:
                self.proc.kill()
                self.proc.wait()
            self.exit_code = self.proc.returncode
            for f in (self.proc.stdin, self.proc.stdout):
                try:
                    f.close()
                except Exception:
                    pass
            try:
                self.stderr_f.close()
            except Exception:
                pass
            self.proc = None

    def alive(self):
        return self.proc is not None and self.proc.poll() is None

    # -- framing -------------------------------------------------------------------------
    def _read_exact(self, n, deadline):
        buf = b""
        fd = self.proc.stdout.fileno()
        while len(buf) < n:
            rem = deadline - time.monotonic()
            if rem <= 0:
                raise Inconclusive("watchdog: vnode reply timed out")
            r, _, _ = select.select([fd], [], [], min(rem, 1.0))
            if not r:
                if self.proc.poll() is not None:
                    # drain anything left
                    chunk = os.read(fd, n - len(buf))
                    if chunk:
                        buf += chunk
                        continue
                    code = self.proc.returncode
                    self._reap()
                    raise NodeDied(code, self.stderr_tail())
                continue
            chunk = os.read(fd, n - len(buf))
            if not chunk:
                self._reap()
                raise NodeDied(self.exit_code, self.stderr_tail())
            buf += chunk
        return buf

    def _read_line(self, deadline):
        buf = b""
        while not buf.endswith(b"\n"):
            buf += self._read_exact(1, deadline)
            if len(buf) > 64:
                raise Inconclusive(f"bad frame header {buf!r}")
        return buf

    def _read_frame(self, timeout=None):
        # VERIF_SLOWDOWN: factor for instrumented nodes (valgrind); watchdogs are harness limits, not verdicts
        deadline = time.monotonic() + (timeout or self.watchdog) * float(os.environ.get("VERIF_SLOWDOWN", "1"))
        hdr = self._read_line(deadline).decode()
        if not hdr.startswith("#"):
            raise Inconclusive(f"bad frame header {hdr!r}")
        kind, n = hdr[1:].split()
        body = self._read_exact(int(n) + 1, deadline)[:-1]
        return kind, body

    def _send(self, line):
        if "\n" in line:
            raise ValueError("newline in request")
        if os.environ.get("VP_CMDLOG"):
            with open(os.environ["VP_CMDLOG"], "a") as f:
                f.write(line + "\n")
        try:
            self.proc.stdin.write(line.encode("utf-8") + b"\n")
            self.proc.stdin.flush()
        except (BrokenPipeError, OSError):
            self._reap()
            raise NodeDied(self.exit_code, self.stderr_tail())

    # -- requests ------------------------------------------------------------------------
    def cmd(self, line, client=0, timeout=None, log=True):
        """Send a SnelDB command; returns Reply. Logged before the call and after the reply."""
        self.op_counter += 1
        rec = {"op": self.op_counter, "lt": self.lifetime, "client": client, "cmd": line,
               "t_call": time.monotonic(), "t_ret": None, "kind": None}
        if log:
            self.history.append(rec)
        self._send(line)
        kind, body = self._read_frame(timeout)
        rec["t_ret"] = time.monotonic()
        rec["kind"] = kind
        rep = Reply(kind, body)
        rec["status"] = rep.status
        return rep

    def meta(self, line, timeout=None):
        self._send("@" + line)
        kind, body = self._read_frame(timeout)
        if kind != "meta":
            raise Inconclusive(f"meta {line!r} -> {kind} {body[:200]!r}")
        return json.loads(body)

    def bg(self, ident, line, client=1):
        """Start a command in the background (it may park at an armed read-path point)."""
        self.op_counter += 1
        rec = {"op": self.op_counter, "lt": self.lifetime, "client": client, "cmd": line, "t_call": time.monotonic(),
               "t_ret": None, "kind": None, "bg": ident}
        self.history.append(rec)
        self._bg = getattr(self, "_bg", {})
        self._bg[str(ident)] = rec
        r = self.meta(f"bg {ident} {line}")
        if not r.get("ok"):
            raise Inconclusive(f"bg failed: {r}")

    def wait(self, ident, timeout_ms=15000):
        self._send(f"@wait {ident} {timeout_ms}")
        kind, body = self._read_frame(timeout_ms / 1000.0 + 10)
        rec = getattr(self, "_bg", {}).get(str(ident))
        if rec is not None:
            rec["t_ret"] = time.monotonic()
            rec["kind"] = kind
        if kind == "err":
            raise Inconclusive(f"background command {ident} did not finish: {body[:100]!r}")
        return Reply(kind, body)

    def sync(self):
        r = self.meta("sync")
        if not r.get("ok"):
            raise Inconclusive(f"sync failed: {r}")

    def syncflush(self):
        r = self.meta("syncflush", timeout=60)
        if not r.get("ok"):
            raise Inconclusive(f"syncflush failed: {r}")

    def shutdown(self):
        """Clean shutdown (flush_all + shutdown_all), process exits 0."""
        try:
            self._send("@shutdown")
            kind, body = self._read_frame(60)
        except NodeDied:
            return None
        self._reap()
        return json.loads(body) if kind == "meta" else None

    def expect_death(self, timeout=20):
        """Wait for the process to die (after an armed crash fired)."""
        t0 = time.monotonic()
        while self.proc and self.proc.poll() is None:
            if time.monotonic() - t0 > timeout:
                raise Inconclusive("armed crash did not fire")
            time.sleep(0.005)
        self._reap()
        return self.exit_code


class Reply:
    """Parsed reply of a dispatched command (JSON renderer)."""

    def __init__(self, kind, body):
        self.kind = kind
        self.raw = body
        self.status = None
        self.message = None
        self.columns = None      # list of (name, logical_type)
        self.rows = None         # list of lists
        self.row_count = None
        self.results = None
        self.frames = []
        self.parse_error = None
        if kind in ("ok",):
            self._parse(body)
        elif kind == "perr":
            self.status = "perr"
            self.message = body.decode("utf-8", "replace")
        elif kind == "panic":
            self.status = "panic"
            self.message = body.decode("utf-8", "replace")

    def _parse(self, body):
        try:
            text = body.decode("utf-8")
        except UnicodeDecodeError as e:
            self.parse_error = f"non-utf8 body: {e}"
            return
        lines = [l for l in text.split("\n") if l.strip()]
        rows = []
        for l in lines:
            try:
                o = json.loads(l)
            except ValueError as e:
                self.parse_error = f"bad json line: {e}: {l[:200]}"
                return
            self.frames.append(o)
            if isinstance(o, dict) and "type" in o and "status" not in o:
                t = o["type"]
                if t == "schema":
                    self.columns = [(c["name"], c.get("logical_type")) for c in o["columns"]]
                    self.status = 200
                elif t == "batch":
                    rows.extend(o["rows"])
                elif t == "row":
                    vals = o["values"]
                    rows.append([vals.get(c[0]) for c in (self.columns or [])])
                elif t == "end":
                    self.row_count = o.get("row_count")
            elif isinstance(o, dict) and "status" in o:
                self.status = o["status"]
                self.message = o.get("message")
                self.results = o.get("results")
        if self.columns is not None:
            self.rows = rows

    @property
    def ok(self):
        return self.status == 200

    def dicts(self):
        """Rows as dicts keyed by column name (from the schema frame)."""
        if self.rows is None:
            return []
        names = [c[0] for c in self.columns]
        return [dict(zip(names, r)) for r in self.rows]

    def table(self):
        """Non-streaming table result (aggregates): returns (columns, rows) or None."""
        if self.results and isinstance(self.results, list) and self.results and isinstance(self.results[0], dict) \
                and "columns" in self.results[0]:
            t = self.results[0]
            return [c["name"] for c in t["columns"]], t["rows"]
        return None

    def __repr__(self):
        return f"<Reply {self.kind} status={self.status} msg={self.message!r} rows={None if self.rows is None else len(self.rows)}>"
