#!/bin/bash
# Run a short generator script of the C18 direct monitor under Miri (UB, data races, uninitialised reads in the id generator and the hook
# plumbing). usage: san/miri_c18.sh <args.json>    Exit 0 clean, 1 Miri reported an error, 3 Miri cannot run here.
cd /verif/harness
[ -f Cargo.lock ] || cp /repo/Cargo.lock Cargo.lock
export CARGO_NET_OFFLINE=true
export MIRIFLAGS="-Zmiri-disable-isolation -Zmiri-ignore-leaks"
out=$(cargo +nightly miri run --offline --target-dir /verif/target-miri --bin vunit -- c18 "$1" 2>/tmp/verif-miri.log)
rc=$?
if grep -q "Undefined Behavior\|error: unsupported operation\|data race" /tmp/verif-miri.log; then
  grep -m3 -A6 "Undefined Behavior\|unsupported operation\|data race" /tmp/verif-miri.log
  grep -q "unsupported operation" /tmp/verif-miri.log && ! grep -q "Undefined Behavior\|data race" /tmp/verif-miri.log && exit 3
  exit 1
fi
[ $rc -ne 0 ] && { tail -5 /tmp/verif-miri.log >&2; exit 3; }
echo "$out"
