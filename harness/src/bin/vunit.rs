#![feature(portable_simd)]
fn main() {
    eprintln!("vunit: no subcommand yet");
    std::process::exit(2);
}
