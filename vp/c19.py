"""C19 - WAL files are deleted only after a complete, lossless archive exists (conservative mode).

Direct monitor (vunit c19): the flush worker's call `WalCleaner::new(shard).cleanup_up_to(n)` over generated WAL directories,
with archive-side faults; the oracle compares directory listings and what archive recovery returns with the generated entries."""
import itertools
import json
import os
import random
import subprocess

from .node import write_config

VUNIT = os.path.join(os.path.dirname(os.path.dirname(os.path.abspath(__file__))), "target", "verif", "vunit")

RULE = ("plan = 0-6 WAL files (ids with gaps, also >= 99999) x 0-40 entries each (payload values: negative / > i64::MAX / float / unicode / "
        "empty / null, equal timestamps, torn last line, blank lines, empty files) x cut-off n over the whole id range x one or two cleanup "
        "passes x archive-side fault per pass: none | shard archive path is a regular file | a directory at the archive name of a subset of "
        "the eligible logs (every subset for <= 4 eligible files, random beyond) | a pre-existing regular file of that name (garbage, "
        "truncated archive, valid archive of other entries, empty) | injected write failure for a subset (hook); oracle per pass: a log is "
        "deleted only if an archive decoding to exactly its parseable entries exists; a pass with a failing eligible file deletes nothing; "
        "logs >= n are never deleted; recover_all = entries of all archived logs in log order; plus engine histories (a node in "
        "conservative mode: STORE / FLUSH / auto-flush / clean restart; the harness reads every WAL file before each step and every file that "
        "vanished must be covered by an archive with exactly its entries); distinct_nontrivial counts distinct "
        "(fault kind, subset shape, pass, file-shape) cells with >= 1 eligible log")

VALUES = [0, 1, -1, 2 ** 31, -2 ** 63, 2 ** 63 - 1, 2 ** 63 + 5, 2 ** 64 - 1, 0.5, -2.75, 1e300, "", "a", "with \"quote\"", "back\\slash", "日本語🚀",
          "line\nbreak", True, False, None, "x" * 300]


def gen_entry(rng, ts_pool, n):
    payload = {}
    for j in range(rng.randint(0, 4)):
        payload[rng.choice(["a", "b", "k", "名前", "s p", "z"])] = rng.choice(VALUES)
    return {"ts": rng.choice(ts_pool), "ctx": rng.choice(["c1", "ctx-2", "ü", "", "a b"]), "type": rng.choice(["ev", "order_created", "e2"]),
            "payload": payload, "event_id": rng.choice([0, n + 1, rng.getrandbits(62), 2 ** 64 - 1])}


def archive_name(fid, entries):
    if not entries:
        return "wal-%05d-0-0.wal.zst" % fid
    return "wal-%05d-%d-%d.wal.zst" % (fid, min(e["ts"] for e in entries), max(e["ts"] for e in entries))


def norm_entry(e):
    """Comparison form: payload values compared as JSON values (ints exact, floats by value)."""
    return {"ts": e["ts"], "ctx": e["ctx"], "type": e["type"], "event_id": e["event_id"], "payload": e["payload"]}


def same_entries(a, b):
    if len(a) != len(b):
        return False
    for x, y in zip(a, b):
        for f in ("ts", "ctx", "type", "event_id"):
            if x[f] != y[f]:
                return False
        if set(x["payload"]) != set(y["payload"]):
            return False
        for k, v in x["payload"].items():
            w = y["payload"][k]
            if isinstance(v, bool) or isinstance(w, bool) or v is None or w is None or isinstance(v, str) or isinstance(w, str):
                if v != w or type(v) != type(w):
                    return False
            elif isinstance(v, float) or isinstance(w, float):
                if float(v) != float(w):
                    return False
            elif v != w:
                return False
    return True


def gen_plan(rng, shard, forced_subset=None):
    nfiles = rng.choice([0, 1, 2, 3, 3, 4, 4, 5, 6])
    base = rng.choice([0, 0, 1, 7, 99997, 99998])
    ids, cur = [], base
    for _ in range(nfiles):
        ids.append(cur)
        cur += rng.choice([1, 1, 1, 2, 5])
    ts_pool = [1_700_000_000 + x for x in rng.sample(range(0, 50), rng.randint(1, 6))]
    files = []
    for fid in ids:
        shape = rng.choice(["normal", "normal", "normal", "empty", "torn", "blank", "one"])
        n = 0 if shape == "empty" else (1 if shape == "one" else rng.randint(1, 40))
        entries = [gen_entry(rng, ts_pool, i) for i in range(n)]
        files.append({"id": fid, "entries": entries, "shape": shape,
                      "torn": rng.choice(['{"timestamp":17000', '{"timestamp":1700000001,"context_id":"c1","event_type":"ev","payload":{"a":', "garbage"]) if shape == "torn" else None,
                      "blank_lines": shape == "blank"})
    passes = []
    npass = rng.choice([1, 1, 2])
    hi = (ids[-1] + 2) if ids else 3
    keeps = sorted(rng.choice([0, base, hi, hi] + [i + 1 for i in ids] + ids) for _ in range(npass))
    for pi, keep in enumerate(keeps):
        # faults are planted only on logs that were not eligible in the first pass: archives written there may be the only copy
        eligible = [f for f in files if f["id"] < keep and (pi == 0 or f["id"] >= keeps[0])]
        kind = rng.choice(["none", "none", "root_is_file", "dir_at_name", "dir_at_name", "preexisting_file", "preexisting_file", "hook_fail"])
        if pi == 1 and passes[0]["fault"] != "none" and rng.random() < 0.7:
            kind = "none"                       # healed second pass after a failed first one
        pre, hook, failing, pre_kind = [], [], [], None
        if pi == 1 and passes[0]["fault"] == "root_is_file":
            pre.append({"op": "archive_root_restore"})
        if pi == 1 and passes[0]["fault"] == "dir_at_name":
            for fid in passes[0]["failing"]:
                f = next(x for x in files if x["id"] == fid)
                pre.append({"op": "rm", "path": archive_name(fid, f["entries"])})
        if kind == "root_is_file" and pi == 0:
            pre.append({"op": "archive_root_file"})
            failing = [f["id"] for f in eligible]
        elif kind == "root_is_file":
            kind = "none"
        elif kind in ("dir_at_name", "hook_fail", "preexisting_file") and eligible:
            if forced_subset is not None and pi == 0:
                sub = [f for i, f in enumerate(eligible) if (forced_subset >> i) & 1]
            else:
                sub = [f for f in eligible if rng.random() < 0.5] or [rng.choice(eligible)]
            if kind == "preexisting_file":
                pre_kind = rng.choice(["garbage", "empty", "truncated_archive", "valid_other_entries", "valid_same_entries"])
            for f in sub:
                name = archive_name(f["id"], f["entries"])
                if kind == "dir_at_name":
                    pre.append({"op": "mkdir", "path": name})
                    failing.append(f["id"])
                elif kind == "hook_fail":
                    hook.append(f["id"])
                    failing.append(f["id"])
                else:
                    if pre_kind == "garbage":
                        pre.append({"op": "write", "path": name, "content": "not an archive at all " * 3})
                    elif pre_kind == "empty":
                        pre.append({"op": "write", "path": name, "content": ""})
                    elif pre_kind == "truncated_archive":
                        pre.append({"op": "write_valid_archive", "path": name, "log_id": f["id"], "entries": f["entries"], "truncate_to": rng.choice([1, 10, 48])})
                    elif pre_kind == "valid_other_entries":
                        other = [dict(gen_entry(rng, ts_pool, 0), ctx="older-log")]
                        pre.append({"op": "write_valid_archive", "path": name, "log_id": f["id"], "entries": other})
                    else:
                        pre.append({"op": "write_valid_archive", "path": name, "log_id": f["id"], "entries": f["entries"]})
        elif kind != "none":
            kind = "none"
        passes.append({"keep_from": keep, "pre": pre, "hook_fail": hook, "fault": kind, "failing": failing, "pre_kind": pre_kind})
    return {"shard": shard, "files": files, "passes": passes}


def check_plan(plan, out, res, seed):
    files = {f["id"]: f for f in plan["files"]}
    alive = set(files)                 # logs still present
    archived = {}                      # log id -> archive name, for logs we expect to be recoverable
    witness = {"seed": seed, "plan": {"shard": plan["shard"], "files": [{k: v for k, v in f.items()} for f in plan["files"]], "passes": plan["passes"]}}
    for pi, (pp, po) in enumerate(zip(plan["passes"], out["passes"])):
        keep = pp["keep_from"]
        eligible = sorted(i for i in alive if i < keep)
        res.evaluations += 1
        shapes = "+".join(sorted({files[i]["shape"] for i in eligible})) or "none"
        nfail = len([i for i in pp["failing"] if i in eligible])
        subset = "none" if not nfail else ("all" if nfail == len(eligible) else "some")
        sig = {"fault": pp["fault"], "subset": subset, "pass": pi, "pre_kind": pp.get("pre_kind")}
        if eligible:
            res.nontrivial((pp["fault"], pp.get("pre_kind"), subset, pi, shapes))
        w = dict(witness, failing_pass=pi)
        if po["panicked"]:
            res.violation("cleanup_panicked", sig, f"cleanup_up_to({keep}) panicked", w)
        after = po["wal_after"]
        names_after = {x["name"] for x in after} if isinstance(after, list) else set()
        present = {i for i in alive if ("wal-%05d.log" % i) in names_after}
        deleted = alive - present
        res.count("logs_deleted", len(deleted)); res.count("logs_eligible", len(eligible))
        # (d) logs at or above the cut-off stay
        wrong = sorted(i for i in deleted if i >= keep)
        if wrong:
            res.violation("ineligible_log_deleted", sig, f"cleanup_up_to({keep}) deleted logs {wrong}", w)
        # (b) any failing eligible file => nothing is deleted in this pass
        if nfail and deleted:
            res.violation("deleted_although_an_archive_failed", sig,
                          f"pass {pi}: cleanup_up_to({keep}) with fault {pp['fault']} on logs {sorted(i for i in pp['failing'] if i in eligible)} deleted {sorted(deleted)}", w)
        # (a) every deleted log has a complete archive
        arch = po["archives"]
        for i in sorted(deleted):
            name = archive_name(i, files[i]["entries"])
            a = arch.get(name)
            want = [norm_entry(e) for e in files[i]["entries"]]
            if a is None or "error" in a:
                res.violation("log_deleted_without_readable_archive", dict(sig, shape=files[i]["shape"]),
                              f"pass {pi}: wal-{i:05d}.log ({len(want)} entries) was deleted; archive {name}: {a if a else 'absent'}; archive dir: {po['archive_after']}", w)
            elif not same_entries(want, a["entries"]):
                res.violation("log_deleted_with_incomplete_archive", dict(sig, shape=files[i]["shape"]),
                              f"pass {pi}: wal-{i:05d}.log deleted; archive {name} holds {len(a['entries'])} entries, the log had {len(want)}; "
                              f"first difference: {next(((x, y) for x, y in zip(want, a['entries']) if not same_entries([x], [y])), None)}", w)
            else:
                archived[i] = name
        # logs that were archived although not deleted (failed pass) also count as recoverable when their archive is complete
        for i in eligible:
            if i in deleted:
                continue
            name = archive_name(i, files[i]["entries"])
            a = arch.get(name)
            if a and "error" not in a and same_entries([norm_entry(e) for e in files[i]["entries"]], a["entries"]):
                archived[i] = name
        # a no-fault pass with eligible logs must make progress (bounded liveness: one pass)
        if eligible and not nfail and pp["fault"] in ("none",) and len(deleted) != len(eligible):
            res.violation("healthy_pass_kept_logs", sig, f"pass {pi}: cleanup_up_to({keep}) without fault kept {sorted(set(eligible) - deleted)}", w)
        # (c) recover_all = archived logs in log order
        ra = po["recover_all"]
        if pp["fault"] == "root_is_file":
            pass                      # the shard's archive path is a regular file right now: nothing to recover from
        elif isinstance(ra, dict):
            res.violation("recover_all_failed", sig, f"{ra}", w)
        else:
            # foreign pre-existing archives we planted with other entries are legitimately part of recover_all: build the expectation
            # from what the archive directory really holds, log by log
            expect = []
            order_ids = sorted(archived)
            for i in order_ids:
                expect += [norm_entry(e) for e in files[i]["entries"]]
            got = [g for g in ra if g.get("ctx") != "older-log"]
            planted = sum(1 for o in pp["pre"] if o["op"] == "write_valid_archive" and o["entries"] and o["entries"][0].get("ctx") == "older-log")
            kept = sum(1 for g in ra if g.get("ctx") == "older-log")
            if planted and kept < planted:
                res.violation("preexisting_archive_overwritten", sig,
                              f"pass {pi}: {planted} valid archives of older logs stood under the names of eligible logs (same id, same first/last second); "
                              f"after the pass only {kept} of their entries are recoverable", w)
            if not same_entries(expect, got):
                # distinguish ordering from content
                def key(e):
                    return json.dumps([e["ts"], e["ctx"], e["type"], e["event_id"], sorted(e["payload"])], sort_keys=True)
                kind = "order" if sorted(map(key, expect)) == sorted(map(key, got)) else "content"
                res.violation("recover_all_differs", dict(sig, kind=kind, ids_at_or_above_99999=any(i >= 99999 for i in order_ids)),
                              f"pass {pi}: recover_all returned {len(got)} entries, expected {len(expect)} from logs {order_ids} ({kind})", w)
        alive = present


def plans_task(task, wdir, res):
    rng = random.Random(task["seed"])
    cfg_path, _ = write_config(wdir, conservative_mode=True)
    plans = []
    for i in range(task["plans"]):
        forced = None
        if task.get("exhaustive") and i < 60:
            forced = i % 16
        plans.append(gen_plan(rng, i + 1, forced))
    af = os.path.join(wdir, "c19.json")
    with open(af, "w") as f:
        json.dump({"wal_root": os.path.join(wdir, "wal"), "archive_root": os.path.join(wdir, "wal_archive"),
                   "plans": [{"shard": p["shard"], "files": p["files"], "passes": p["passes"]} for p in plans]}, f)
    res.count("tasks")
    pr = subprocess.run([VUNIT, "c19", af], env=dict(os.environ, SNELDB_CONFIG=cfg_path), capture_output=True, timeout=900)
    if pr.returncode != 0:
        res.inconclusive.append(f"vunit c19 died: {pr.returncode} {pr.stderr.decode('utf-8', 'replace')[-400:]}")
        return
    out = json.loads(pr.stdout)
    for p, o in zip(plans, out["plans"]):
        res.count("plans")
        check_plan(p, o, res, task["seed"])
    res.sample({"plan": {"files": [(f["id"], f["shape"], len(f["entries"])) for f in plans[0]["files"]],
                         "passes": [(x["keep_from"], x["fault"], x["failing"]) for x in plans[0]["passes"]]}})


def engine_task(task, wdir, res):
    """The same oracle on the real flush-worker path: a node in conservative mode stores, flushes (manual and automatic) and restarts;
    WAL files are read by the harness before each step, and every file that disappeared must be covered by a complete archive."""
    import glob
    import re
    from . import gen
    from .hist import Lifetimes, must_ok
    rng = random.Random(task["seed"])
    shards = rng.choice([1, 2])
    cfg = dict(shard_count=shards, event_per_zone=rng.choice([1, 2, 3]), fill_factor=rng.choice([1, 2, 50]), conservative_mode=True)
    lt = Lifetimes(wdir, **cfg)
    node = lt.start()
    res.count("tasks"); res.count("engine_histories")
    witness = {"seed": task["seed"], "config": cfg, "ops": []}
    seen_files = {}          # (shard, name) -> list of parsed lines (latest snapshot before the file vanished)
    vanished = {}            # (shard, name) -> lines it held when last seen

    def snapshot():
        now = {}
        for sh in range(shards):
            for p in glob.glob(os.path.join(wdir, "wal", f"shard-{sh}", "wal-*.log")):
                try:
                    lines = [json.loads(l) for l in open(p, encoding="utf-8") if l.strip().startswith("{") and l.rstrip().endswith("}")]
                except (OSError, ValueError):
                    continue
                now[(sh, os.path.basename(p))] = lines
        for key, lines in seen_files.items():
            if key not in now:
                vanished[key] = lines
        for key, lines in now.items():
            seen_files[key] = lines
            vanished.pop(key, None)

    def check(tag):
        node.syncflush()
        snapshot()
        if not vanished:
            return
        af = os.path.join(wdir, "c19e.json")
        with open(af, "w") as f:
            json.dump({"plans": [], "decode_dirs": [{"shard": sh, "dir": os.path.join(wdir, "wal_archive", f"shard-{sh}")} for sh in range(shards)]}, f)
        pr = subprocess.run([VUNIT, "c19", af], env=dict(os.environ, SNELDB_CONFIG=os.path.join(wdir, "config")), capture_output=True, timeout=300)
        if pr.returncode != 0:
            res.inconclusive.append(f"vunit c19 decode died: {pr.stderr.decode('utf-8', 'replace')[-300:]}")
            return
        dec = {d["shard"]: d for d in json.loads(pr.stdout)["decoded"]}
        for (sh, name), lines in sorted(vanished.items()):
            res.evaluations += 1
            fid = int(re.match(r"wal-(\d+)\.log", name).group(1))
            res.nontrivial(("engine", tag.split(":")[0], "empty" if not lines else "entries", cfg["fill_factor"]))
            want = [(l.get("event_id"), l.get("context_id"), l.get("event_type"), l.get("timestamp"), json.dumps(l.get("payload"), sort_keys=True)) for l in lines]
            cands = [a for n, a in dec.get(sh, {}).get("archives", {}).items() if n.startswith("wal-%05d-" % fid)]
            ok = False
            for a in cands:
                if "error" in a:
                    continue
                got = [(e["event_id"], e["ctx"], e["type"], e["ts"], json.dumps(e["payload"], sort_keys=True)) for e in a["entries"]]
                if got == want:
                    ok = True
            if not ok:
                res.violation("log_deleted_without_complete_archive", {"monitor": "engine", "when": tag.split(":")[0]},
                              f"{tag}: shard {sh} {name} ({len(lines)} entries) is gone; archives for id {fid}: "
                              f"{[(len(a.get('entries', [])) if 'error' not in a else a['error']) for a in cands]}", dict(witness, file=name))
        vanished.clear()

    try:
        must_ok(node.cmd('DEFINE ev FIELDS { k: "int", s: "string" }'), "define")
        k = 0
        for step in range(task["steps"]):
            r = rng.random()
            if r < 0.6:
                for _ in range(rng.randint(1, 6)):
                    k += 1
                    must_ok(node.cmd(gen.store_cmd("ev", f"c{rng.randint(0, 3)}", {"k": k, "s": rng.choice(["", "x", "日本", "q\"uote"])})), "store")
                witness["ops"].append("store")
                node.sync()
                snapshot()
                check(f"store:{step}")
            elif r < 0.85:
                snapshot()
                witness["ops"].append("flush")
                must_ok(node.cmd("FLUSH", timeout=60), "flush")
                check(f"flush:{step}")
            else:
                snapshot()
                witness["ops"].append("restart")
                node = lt.restart_clean()
                check(f"restart:{step}")
        res.sample({"engine_history": witness["ops"][:12], "config": cfg})
    finally:
        lt.stop()


def _dispatch(task, wdir, res):
    (engine_task if task.get("kind") == "engine" else plans_task)(task, wdir, res)


def run(run):
    quick = run.tier == "quick"
    n = 16 if quick else 160
    tasks = [{"name": f"p{i}", "seed": run.rng("p", i).getrandbits(44), "plans": 120 if quick else 400, "exhaustive": i % 2 == 0} for i in range(n)]
    run.min_distinct = 30
    run.assumptions = ["the sandbox runs as root, so permission bits cannot deny: faults are ENOTDIR (regular file at the shard's archive path), "
                       "EISDIR (directory at the deterministic archive name), a pre-existing regular file of that name, and the wa.write hook",
                       "a torn or unparseable line is not an entry; 'all entries' = the lines the repo's own WalEntry deserialisation accepts"]
    tasks += [{"name": f"e{i}", "kind": "engine", "seed": run.rng("e", i).getrandbits(44), "steps": 12 if quick else 24} for i in range(12 if quick else 200)]
    run.parallel(_dispatch, tasks)


def replay(run, path):
    with open(path) as f:
        w = json.load(f)["witness"]
    if "ops" in w:
        run.parallel(_dispatch, [{"name": "replay", "kind": "engine", "seed": w["seed"], "steps": 24}], nproc=1)
    else:
        run.parallel(_dispatch, [{"name": "replay", "seed": w["seed"], "plans": 400, "exhaustive": True}], nproc=1)
