"""Generators: schemas, values, events, configurations; command text rendering."""
import json
import math

KINDS = ["int", "u64", "float", "string", "bool", "enum", "datetime", "date"]
TYPE_SPELLINGS = {
    "int": ["int", "i64", "int64", "integer"],
    "u64": ["u64", "uint64"],
    "float": ["float", "f64", "double", "number"],
    "string": ["string", "str", "text", "varchar"],
    "bool": ["bool", "boolean"],
    "datetime": ["datetime", "timestamp"],
    "date": ["date"],
}
I64_MIN, I64_MAX = -(2 ** 63), 2 ** 63 - 1
U64_MAX = 2 ** 64 - 1


class Field:
    def __init__(self, name, kind, optional=False, variants=None, spelling=None):
        self.name, self.kind, self.optional, self.variants = name, kind, optional, variants
        self.spelling = spelling or (kind if kind != "enum" else None)

    def spec(self):
        if self.kind == "enum":
            return json.dumps(self.variants)
        s = self.spelling
        if self.optional:
            s += " | null"
        return json.dumps(s)

    def desc(self):
        return f"{self.name}:{self.kind}{'?' if self.optional else ''}"


class Schema:
    def __init__(self, name, fields):
        self.name, self.fields = name, fields
        self.by_name = {f.name: f for f in fields}

    def define_cmd(self):
        body = ", ".join(f"{f.name}: {f.spec()}" for f in self.fields)
        return f"DEFINE {self.name} FIELDS {{ {body} }}"


def gen_schema(rng, name="ev", kinds=None, nfields=None, allow_optional=True, spellings=False):
    kinds = kinds or KINDS
    n = nfields or rng.randint(2, 6)
    fields = [Field("k", "int")]
    for i in range(n):
        kind = rng.choice(kinds)
        opt = allow_optional and kind not in ("enum",) and rng.random() < 0.3
        variants = None
        if kind == "enum":
            variants = rng.sample(["red", "green", "blue", "Red", "x", "a_b", "v9"], rng.randint(1, 4))
        sp = rng.choice(TYPE_SPELLINGS[kind]) if (spellings and kind != "enum") else None
        fields.append(Field(f"f{i}{kind[0]}", kind, opt, variants, sp))
    return Schema(name, fields)


def jtext(v):
    """JSON text for a flat payload value; floats never use 'e+' (the command tokenizer rejects '+')."""
    if isinstance(v, float):
        return repr(v).replace("e+", "e")
    return json.dumps(v, ensure_ascii=False)


def payload_text(payload):
    return "{" + ",".join(json.dumps(k, ensure_ascii=False) + ":" + jtext(v) for k, v in payload.items()) + "}"


def store_cmd(etype, ctx, payload):
    return f"STORE {etype} FOR {ctx_token(ctx)} PAYLOAD {payload_text(payload)}"


def ctx_token(ctx):
    import re
    if re.fullmatch(r"[A-Za-z_][A-Za-z0-9_-]*", ctx):
        return ctx
    return '"' + ctx + '"'


# ---- small-domain values (predicates: repeated values, zones mixing match / non-match) ----
SMALL = {
    "int": [-3, -1, 0, 1, 2, 5, 7, 100],
    "u64": [0, 1, 2, 9, 40],
    "float": [-2.5, -1.0, 0.0, 0.5, 1.0, 1.5, 2.0, 3.25],
    "string": ["a", "b", "ab", "abc", "", "zz", "B"],
    "bool": [True, False],
    "datetime": [1700000000, 1700000060, 1700003600, 1700086400, 1600000000],
    "date": [1699920000, 1700006400, 1700092800],
}


def small_value(rng, f):
    if f.optional and rng.random() < 0.25:
        return None if rng.random() < 0.5 else ABSENT
    if f.kind == "enum":
        return rng.choice(f.variants)
    return rng.choice(SMALL[f.kind])


class _Absent:
    def __repr__(self):
        return "ABSENT"


ABSENT = _Absent()


def gen_events(rng, schema, n, contexts, value_fn=small_value, k0=0):
    """Events as dicts {k, ctx, type, payload}; payload omits ABSENT optionals."""
    out = []
    for i in range(n):
        payload = {}
        for f in schema.fields:
            if f.name == "k":
                payload["k"] = k0 + i
                continue
            v = value_fn(rng, f)
            if v is ABSENT:
                continue
            payload[f.name] = v
        out.append({"k": k0 + i, "ctx": rng.choice(contexts), "type": schema.name, "payload": payload})
    return out


def gen_config(rng, shards=(1, 2, 3), zone=(1, 2, 3, 5), fill=(1, 2, 3), merge=(2, 3)):
    return dict(shard_count=rng.choice(shards), event_per_zone=rng.choice(zone),
                fill_factor=rng.choice(fill), segments_per_merge=rng.choice(merge))


def cfg_desc(cfg):
    return "s%d/z%d/f%d/m%d" % (cfg.get("shard_count", 0), cfg.get("event_per_zone", 0),
                                 cfg.get("fill_factor", 0), cfg.get("segments_per_merge", 0))


def jnum_eq(a, b):
    """JSON numeric equality as f64/int: ints exact, floats numerically equal."""
    if isinstance(a, bool) or isinstance(b, bool):
        return a is b
    if isinstance(a, int) and isinstance(b, int):
        return a == b
    try:
        fa, fb = float(a), float(b)
    except (TypeError, ValueError, OverflowError):
        return False
    if math.isnan(fa) or math.isnan(fb):
        return False
    return fa == fb
