"""C07 - stored values come back unchanged from every storage tier.

Events with rich per-type values are stored once and read back (QUERY, QUERY RETURN [...], REPLAY)
in every layout: memory, flushed L0, compacted x2, clean restart, WAL-recovered.  Each cell is compared
by column *name* with the stored JSON value (reference oracle) and, through the per-(k,field) table,
with every other tier (relational oracle)."""
import json
import os
import re

from . import gen
from .gen import Field, Schema
from .hist import walk_tiers, walk_crash
from .node import Inconclusive

RULE = ("history = schema over all field kinds x ~24 events with class-labelled values x config; walked through tiers "
        "mem/flush/c1/c2/restart/recovered; a case is one (field kind, value class, tier, read form) cell comparison; "
        "distinct_nontrivial counts distinct (kind, value class, tier, form) combinations actually compared")

CORE = ["context_id", "event_type", "timestamp", "event_id"]


def string_values(rng):
    return [
        ("", "empty"), (" ", "space"), ("plain", "plain"), ("Hello World", "plain"),
        ("123", "int_looking"), ("-7", "int_looking"), ("1e3", "float_looking"), ("3.14", "float_looking"),
        ("true", "bool_looking"), ("null", "null_looking"), ("[1,2]", "array_looking"),
        ('["a"]', "array_looking"), ("2024-01-01", "date_looking"), ("2024-01-01T00:00:00Z", "date_looking"),
        ("18446744073709551615", "bigint_looking"), ("99999999999999999999999", "bigint_looking"),
        ("naïve café", "nonascii"), ("日本語", "nonascii"), ("🚀 rocket", "nonascii4"), ("é", "combining"),
        ("a\"quote", "quote"), ("back\\slash", "backslash"), ("tab\tnew\nline", "control"),
        ("x" * rng.choice([300, 5000, 70000]), "long"), ("0", "int_looking"), ("00012", "leading_zero"),
        ("NaN", "nan_looking"), ("-0", "int_looking"), ("1.0", "float_looking"), ("  padded  ", "padded"),
        ("a,b;c:d=e", "punct"), ("(paren)", "punct"),
        ("a}b", "brace"), ("{name}", "brace"), ("}{", "brace"), ("{\"k\":1}", "object_looking"), ("]", "brace"),
    ]


def int_values(rng):
    return [(0, "zero"), (1, "small"), (-1, "neg"), (42, "small"), (-12345, "neg"),
            (gen.I64_MAX, "i64_max"), (gen.I64_MIN, "i64_min"), (2 ** 53 + 1, "gt_2p53"), (-(2 ** 53) - 1, "lt_m2p53"),
            (2 ** 31, "gt_i32"), (-(2 ** 31) - 1, "lt_i32"), (rng.randint(-10 ** 12, 10 ** 12), "rand")]


def u64_values(rng):
    return [(0, "zero"), (1, "small"), (2 ** 32, "gt_u32"), (gen.I64_MAX, "i64_max"), (2 ** 53 + 1, "gt_2p53"),
            (rng.randint(0, 10 ** 15), "rand"), (gen.I64_MAX + 1, "gt_i64_max"), (gen.U64_MAX, "u64_max"),
            (rng.randint(gen.I64_MAX + 2, gen.U64_MAX - 1), "gt_i64_max")]


def float_values(rng):
    return [(0.0, "zero"), (1.5, "frac"), (-2.25, "neg_frac"), (2.0, "integral"), (-3.0, "neg_integral"),
            (1e-300, "tiny"), (1.7976931348623157e308, "huge"), (0.1, "inexact"), (123456789.12345679, "many_digits"),
            (-0.0, "neg_zero"), (1e21, "integral_large"), (rng.uniform(-1e6, 1e6), "rand")]


def time_values(rng, date=False):
    if date:
        return [("2024-03-01", 1709251200, "ymd"), (1709251200, 1709251200, "epoch_s"),
                ("1999-12-31", 946598400, "ymd")]
    return [
        ("2024-03-01T12:00:00Z", 1709294400, "iso_z"), ("2024-03-01T13:00:00+01:00", 1709294400, "iso_offset"),
        (1709294400, 1709294400, "epoch_s"), (1709294400000, 1709294400, "epoch_ms"),
        (1709294400000000, 1709294400, "epoch_us"), (1709294400000000000, 1709294400, "epoch_ns"),
        ("2024-03-01T12:00:00.750Z", 1709294400, "iso_frac"), ("2001-09-09T01:46:40Z", 1000000000, "iso_z"),
    ]


def make_history(rng):
    # every kind once required + some optional twins
    fields = [Field("k", "int")]
    fields += [Field("s", "string"), Field("i", "int"), Field("u", "u64"), Field("f", "float"), Field("b", "bool"),
               Field("e", "enum", variants=["red", "Green", "b_2"]), Field("t", "datetime"), Field("d", "date"),
               Field("os", "string", optional=True), Field("oi", "int", optional=True),
               Field("of", "float", optional=True), Field("ob", "bool", optional=True),
               Field("ot", "datetime", optional=True), Field("ou", "u64", optional=True), Field("od", "date", optional=True)]
    # randomise field order (projection / alignment bugs depend on it)
    head, rest = fields[:1], fields[1:]
    rng.shuffle(rest)
    schema = Schema("ev", head + rest)
    sv, iv, uv, fv = string_values(rng), int_values(rng), u64_values(rng), float_values(rng)
    tv, dv = time_values(rng), time_values(rng, True)
    n = rng.randint(14, 26)
    ctxs = [f"c{j}" for j in range(rng.randint(2, 5))]
    events = []
    for j in range(n):
        stored, expect, cls = {"k": j}, {"k": j}, {"k": "key"}

        def put(name, val, exp, c):
            stored[name] = val
            expect[name] = exp
            cls[name] = c

        s = rng.choice(sv); put("s", s[0], s[0], s[1])
        i = rng.choice(iv); put("i", i[0], i[0], i[1])
        u = rng.choice(uv); put("u", u[0], u[0], u[1])
        f = rng.choice(fv); put("f", f[0], f[0], f[1])
        b = rng.random() < 0.5; put("b", b, b, str(b).lower())
        e = rng.choice(schema.by_name["e"].variants); put("e", e, e, "variant")
        t = rng.choice(tv); put("t", t[0], t[1], t[2])
        d = rng.choice(dv); put("d", d[0], d[1], d[2])
        for name, pool in (("os", sv), ("oi", iv), ("of", fv), ("ot", tv), ("ou", uv), ("od", dv)):
            r = rng.random()
            if r < 0.3:
                expect[name] = None; cls[name] = "absent"
            elif r < 0.55:
                stored[name] = None; expect[name] = None; cls[name] = "null"
            else:
                v = rng.choice(pool)
                if name in ("ot", "od"):
                    put(name, v[0], v[1], v[2])
                else:
                    put(name, v[0], v[0], v[1])
        r = rng.random()
        if r < 0.3:
            expect["ob"] = None; cls["ob"] = "absent"
        elif r < 0.5:
            stored["ob"] = None; expect["ob"] = None; cls["ob"] = "null"
        else:
            bb = rng.random() < 0.5; put("ob", bb, bb, str(bb).lower())
        events.append({"k": j, "ctx": rng.choice(ctxs), "stored": stored, "expect": expect, "cls": cls})
    cfg = gen.gen_config(rng, zone=(1, 2, 3, 5, 8), fill=(1, 2, 3, 50))
    return schema, events, cfg, ctxs


_INT_RE = re.compile(r"[+-]?[0-9]+$")


def string_reparse_class(exp, got):
    """The cell of a string field came back as a non-string: is it the text re-parsed (listed finding
    class) or an unrelated value?"""
    t = exp.strip()
    tname = type(got).__name__
    cands = []
    if _INT_RE.match(t):
        cands.append(int(t))
    try:
        cands.append(float(t))
    except ValueError:
        pass
    if t in ("true", "false"):
        cands.append(t == "true")
    try:
        cands.append(json.loads(t))
    except ValueError:
        pass
    for c in cands:
        if type(c) is type(got) and c == got:
            return "string_reparsed_as_" + tname
        if isinstance(c, (int, float)) and isinstance(got, (int, float)) and not isinstance(got, bool) \
                and not isinstance(c, bool) and float(c) == float(got):
            return "string_reparsed_as_" + tname
    return "string_as_" + tname + "_unrelated"


def obs_class(kind, exp, got, row_expect):
    """Classify how a returned cell differs from the expectation (None = equal)."""
    if exp is None:
        if got is None:
            return None
        if got == "":
            return "null_as_empty_string"
        return "null_as_" + type(got).__name__
    if got is None:
        if kind == "string" and isinstance(exp, str) and exp.strip() == "null":
            return "string_reparsed_as_null"
        return "value_as_null"
    if kind in ("string", "enum"):
        if isinstance(got, str):
            return None if got == exp else "different_string"
        return string_reparse_class(exp, got)
    if kind == "bool":
        if isinstance(got, bool):
            return None if got is exp else "different_bool"
        return "bool_as_" + type(got).__name__
    if kind in ("int", "u64", "datetime", "date"):
        if isinstance(got, bool):
            return "int_as_bool"
        if isinstance(got, int):
            return None if got == exp else "different_int"
        if isinstance(got, float):
            return "int_as_float" if got == exp else "different_number"
        return "int_as_" + type(got).__name__
    if kind == "float":
        if isinstance(got, bool):
            return "float_as_bool"
        if isinstance(got, (int, float)):
            return None if gen.jnum_eq(got, exp) else "different_number"
        return "float_as_" + type(got).__name__
    return "unknown_kind"


def check_rows(res, schema, events, rows, columns, tier, form, wanted_fields, scope_ks, witness):
    """rows: list of dicts by column name. scope_ks: ks that must appear exactly once."""
    by_k = {}
    names = [c[0] for c in columns]
    # RETURN / core-field structure
    for c in CORE[:3]:
        if c not in names:
            res.violation("core_field_dropped", {"field": c, "tier": tier, "form": form},
                          f"columns={names}", witness)
    payload_cols = [n for n in names if n not in CORE]
    if wanted_fields is not None:
        extra = [n for n in payload_cols if n not in wanted_fields]
        missing = [n for n in wanted_fields if n in schema.by_name and n not in payload_cols]
        if extra:
            res.violation("return_extra_column", {"tier": tier, "form": form}, f"extra={extra} wanted={wanted_fields}", witness)
        if missing:
            res.violation("return_missing_column", {"tier": tier, "form": form}, f"missing={missing} cols={names}", witness)
    if len(set(names)) != len(names):
        res.violation("duplicate_column", {"tier": tier, "form": form}, f"columns={names}", witness)
    for r in rows:
        k = r.get("k")
        if k is None and "k" not in names:
            continue
        by_k.setdefault(k, []).append(r)
    ev_by_k = {e["k"]: e for e in events}
    if "k" in names:
        for k in scope_ks:
            n = len(by_k.get(k, []))
            if n != 1:
                res.violation("row_multiplicity", {"tier": tier, "form": form, "n": min(n, 2)},
                              f"k={k} returned {n} times", witness)
        for k in by_k:
            if k not in ev_by_k or k not in scope_ks:
                res.violation("foreign_row", {"tier": tier, "form": form}, f"k={k!r} not expected in this read", witness)
    for k, rs in by_k.items():
        e = ev_by_k.get(k)
        if e is None:
            continue
        r = rs[0]
        if "context_id" in r and r["context_id"] != e["ctx"]:
            res.violation("context_changed", {"tier": tier, "form": form}, f"k={k} ctx {r['context_id']!r} != {e['ctx']!r}", witness)
        if "event_type" in r and r["event_type"] != "ev":
            res.violation("type_changed", {"tier": tier, "form": form}, f"k={k} type {r['event_type']!r}", witness)
        for f in schema.fields:
            if f.name == "k" or f.name not in r:
                continue
            exp = e["expect"].get(f.name)
            got = r[f.name]
            cls = e["cls"].get(f.name, "?")
            res.evaluations += 1
            res.nontrivial((f.kind, cls, tier, form))
            oc = obs_class(f.kind, exp, got, e["expect"])
            if oc is not None:
                # misalignment: does the cell equal another field's expected value?
                mis = [g.name for g in schema.fields if g.name != f.name and e["expect"].get(g.name) is not None
                       and type(e["expect"].get(g.name)) is type(got) and e["expect"].get(g.name) == got]
                sig = {"kind": f.kind, "optional": f.optional, "value_class": cls, "tier": tier, "observed": oc}
                res.violation("cell_mismatch", sig,
                              f"k={k} field={f.name} stored={json.dumps(e['stored'].get(f.name, 'ABSENT'))[:80]} "
                              f"expected={json.dumps(exp)[:80]} got={json.dumps(got)[:80]} form={form} cols={names} "
                              f"equals_other_fields={mis}",
                              witness)


def history_task(task, wdir, res):
    import random
    rng = random.Random(task["seed"])
    schema, events, cfg, ctxs = make_history(rng)
    setup = [schema.define_cmd()]
    stores = [gen.store_cmd("ev", e["ctx"], e["stored"]) for e in events]
    all_ks = {e["k"] for e in events}
    witness = {"config": cfg, "setup": setup, "stores": stores, "seed": task["seed"]}
    res.count("tasks")
    res.count("histories")
    res.sample({"config": gen.cfg_desc(cfg), "define": setup[0], "first_store": stores[0][:300], "events": len(events)})
    ret_lists = [None, [], ["k"], ["k", "s", "oi"], ["k", "f", "e", "nope"], ["k", "context_id", "b"],
                 ["k"] + [f.name for f in schema.fields if f.name != "k"][::-1]]
    # cross-tier table: (k, field) -> {tier: value}
    seen = {}

    def observe(tier, node):
        res.add_set("tiers", tier)
        forms = []
        rl = rng.sample(ret_lists, 3) + [None]
        for ret in rl:
            if ret is None:
                q, form, wanted = "QUERY ev", "query_all", None
            elif ret == []:
                q, form, wanted = "QUERY ev RETURN []", "query_return_empty", None
            else:
                q, form, wanted = "QUERY ev RETURN [" + ", ".join(ret) + "]", "query_return", [x for x in ret if x not in CORE]
            forms.append((q, form, wanted, all_ks))
        for c in ctxs[:2]:
            ks = {e["k"] for e in events if e["ctx"] == c}
            forms.append((f"REPLAY FOR {c}", "replay", None, ks))
            forms.append((f"REPLAY ev FOR {c} RETURN [k, s, ot]", "replay_return", ["k", "s", "ot"], ks))
        for q, form, wanted, ks in forms:
            rep = node.cmd(q)
            if rep.kind == "panic":
                res.violation("read_panicked", {"tier": tier, "form": form}, rep.message, dict(witness, query=q))
                continue
            if not rep.ok or rep.rows is None:
                if not ks and not rep.ok:
                    continue
                res.violation("read_failed", {"tier": tier, "form": form}, f"{q}: {rep!r} {rep.raw[:200]!r}", dict(witness, query=q))
                continue
            rows = rep.dicts()
            check_rows(res, schema, events, rows, rep.columns, tier, form, wanted, ks, dict(witness, query=q, tier=tier))
            if rep.row_count is not None and rep.row_count != len(rep.rows):
                res.violation("row_count_mismatch", {"tier": tier, "form": form}, f"{q}: end={rep.row_count} rows={len(rep.rows)}", witness)
            for r in rows:
                for name, v in r.items():
                    if name in ("timestamp",):
                        continue
                    seen.setdefault((r.get("k"), name), {})[tier] = json.dumps(v, sort_keys=True)

    walk_tiers(wdir + "/a", cfg, setup, stores, observe)
    walk_crash(wdir + "/b", cfg, setup, stores, observe)
    # relational: event_id and cells identical across tiers (pairs not already flagged by the reference oracle)
    for (k, name), per in seen.items():
        if name == "event_id" and len(set(per.values())) > 1 and k is not None:
            # ids in tier "recovered" come from a different run (walk_crash) -> only compare within walk a
            a = {t: v for t, v in per.items() if t != "recovered"}
            if len(set(a.values())) > 1:
                res.violation("event_id_changed_across_tiers", {"tiers": sorted(a)}, f"k={k} ids={a}", witness)


def run(run):
    n = 16 if run.tier == "quick" else 320
    tasks = [{"name": f"h{i}", "seed": run.rng("hist", i).getrandbits(48)} for i in range(n)]
    run.min_distinct = 50
    run.assumptions = ["python json / the repo's JsonRenderer framing decode responses faithfully",
                       "strings containing unbalanced braces are excluded (STORE grammar, see C17)"]
    run.parallel(history_task, tasks)
    if run.tier == "thorough" or os.environ.get("VERIF_MEMCHECK"):
        # sanitizer layer: the same histories under valgrind memcheck (mmap-backed column readers, caches)
        from .core import run_under_memcheck
        run_under_memcheck(run, history_task, [dict(t, name="mc-" + t["name"]) for t in tasks[:24]], "C07 histories")


def replay(run, path):
    with open(path) as f:
        w = json.load(f)
    seed = (w.get("witness") or {}).get("seed")
    run.parallel(history_task, [{"name": "replay", "seed": seed}], nproc=1)
