#!/bin/bash
# Convenience: run every registered check at one tier and seed, print the summary lines. usage: ./run_all.sh quick|thorough [seed] [ids...]
tier=${1:-quick}; seed=${2:-1}; shift 2 2>/dev/null
ids=${@:-C01 C02 C03 C04 C05 C06 C07 C08 C09 C10 C11 C12 C13 C14 C15 C16 C17 C18 C19 C20}
cd /verif
rc_all=0
for id in $ids; do
  VERIF_SEED=$seed ./check $id --tier $tier > /tmp/runall-$id-$tier-$seed.out 2>&1
  rc=$?
  echo "$(tail -1 /tmp/runall-$id-$tier-$seed.out | cut -c1-140) rc=$rc"
  if [ $rc -ne 0 ]; then rc_all=1; grep -m3 -A1 "^VIOLATION\|^INCONCLUSIVE" /tmp/runall-$id-$tier-$seed.out | cut -c1-300; fi
done
exit $rc_all
