#!/bin/bash
# Build the vnode binary with AddressSanitizer (nightly, -Zsanitizer=address) into /verif/target-asan. Prints the binary path on success.
# Exit 3 = the sanitizer build is not possible in this image (reported as "not run", never as a violation).
set -o pipefail
cd /verif/harness
[ -f Cargo.lock ] || cp /repo/Cargo.lock Cargo.lock
export CARGO_NET_OFFLINE=true
RUSTFLAGS="-Zsanitizer=address -Cforce-frame-pointers=yes" \
  cargo +nightly build --offline --profile verif --target x86_64-unknown-linux-gnu --target-dir /verif/target-asan --bin vnode >/tmp/verif-asan-build.log 2>&1 || { tail -5 /tmp/verif-asan-build.log >&2; exit 3; }
echo /verif/target-asan/x86_64-unknown-linux-gnu/verif/vnode
