"""Shared machinery for the crash-safety properties (C01, C05, C11): history templates, a player that
tracks acked / applied / open STOREs, crash arming at named step points, dry-run point enumeration."""
import collections
import json

from . import gen
from .hist import Lifetimes, must_ok
from .node import NodeDied, Inconclusive

DEFINE = 'DEFINE ev FIELDS { k: "int", v: "string" }'
DEFINE2 = 'DEFINE ev2 FIELDS { k: "int", n: "int" }'


def store_op(k, ctx, etype="ev"):
    return {"op": "store", "k": k, "ctx": ctx, "type": etype}


def store_text(op):
    if op["type"] == "ev":
        return gen.store_cmd("ev", op["ctx"], {"k": op["k"], "v": f"val-{op['k']}"})
    return gen.store_cmd("ev2", op["ctx"], {"k": op["k"], "n": op["k"] * 3})


# ---- templates ---------------------------------------------------------------------------------

def _settle(rng, ops, p=0.35):
    """Sometimes wait for the background flushes queued so far (so that later steps run after publication
    and WAL cleanup, not only while a flush is still in flight)."""
    if rng.random() < p:
        ops.append({"op": "syncflush"})


def t_auto(rng, cfg):
    """Auto-flush only, single lifetime: WAL ids and segment ids stay in step."""
    cap = cfg["fill_factor"] * cfg["event_per_zone"]
    n = cap * rng.randint(2, 4) + rng.randint(0, cap)
    ctxs = [f"c{i}" for i in range(rng.randint(2, 5))]
    ops = [{"op": "arm"}]
    for k in range(1, n + 1):
        ops.append(store_op(k, rng.choice(ctxs), "ev2" if rng.random() < 0.2 else "ev"))
        ops.append({"op": "sync"})
        _settle(rng, ops)
    return ops


def t_manual(rng, cfg):
    """Manual FLUSH of a partly filled memtable, then more STOREs (WAL id / segment id skew)."""
    cap = cfg["fill_factor"] * cfg["event_per_zone"]
    ctxs = [f"c{i}" for i in range(rng.randint(2, 4))]
    ops, k = [], 0
    for _ in range(rng.randint(1, max(1, cap))):
        k += 1; ops += [store_op(k, rng.choice(ctxs)), {"op": "sync"}]
    ops.append({"op": "arm"})
    ops.append({"op": "flush"})
    for _ in range(cap + rng.randint(1, 3)):
        k += 1; ops += [store_op(k, rng.choice(ctxs)), {"op": "sync"}]
    if rng.random() < 0.5:
        ops.append({"op": "flush"})
        k += 1; ops += [store_op(k, rng.choice(ctxs)), {"op": "sync"}]
    return ops


def t_empty_flush(rng, cfg):
    cap = cfg["fill_factor"] * cfg["event_per_zone"]
    ctxs = ["c0", "c1", "c2"]
    ops, k = [{"op": "flush"}], 0
    ops.append({"op": "arm"})
    for _ in range(rng.randint(1, cap + 1)):
        k += 1; ops += [store_op(k, rng.choice(ctxs)), {"op": "sync"}]
    ops += [{"op": "flush"}, {"op": "flush"}]
    for _ in range(rng.randint(1, cap + 2)):
        k += 1; ops += [store_op(k, rng.choice(ctxs)), {"op": "sync"}]
    return ops


def t_restart(rng, cfg):
    """Clean restart in the middle, crash in the second lifetime."""
    cap = cfg["fill_factor"] * cfg["event_per_zone"]
    ctxs = ["c0", "c1", "c2", "c3"]
    ops, k = [], 0
    for _ in range(cap + rng.randint(0, cap)):
        k += 1; ops += [store_op(k, rng.choice(ctxs)), {"op": "sync"}]
    ops.append({"op": "restart_clean"})
    ops.append({"op": "arm"})
    for _ in range(cap + rng.randint(1, cap + 1)):
        k += 1; ops += [store_op(k, rng.choice(ctxs)), {"op": "sync"}]
    return ops


def t_compact(rng, cfg):
    """Enough flushed segments for a compaction round; crash window covers the round and later STOREs."""
    cap = cfg["fill_factor"] * cfg["event_per_zone"]
    m = cfg["segments_per_merge"]
    ctxs = ["c0", "c1", "c2"]
    ops, k = [], 0
    for seg in range(m + rng.randint(0, 2)):
        for _ in range(rng.randint(1, cap)):
            k += 1
            ops += [store_op(k, rng.choice(ctxs), "ev2" if (seg % 2 == 0 and rng.random() < 0.4) else "ev"), {"op": "sync"}]
        ops.append({"op": "flush"})
    ops.append({"op": "arm"})
    ops.append({"op": "compact"})
    for _ in range(rng.randint(1, cap + 1)):
        k += 1; ops += [store_op(k, rng.choice(ctxs)), {"op": "sync"}]
    if rng.random() < 0.5:
        ops += [{"op": "flush"}, {"op": "compact"}]
    return ops


def t_compact_restart(rng, cfg):
    """Compaction empties L0, clean restart (allocator restarts at 0), more STOREs, crash."""
    cap = cfg["fill_factor"] * cfg["event_per_zone"]
    m = cfg["segments_per_merge"]
    ctxs = ["c0", "c1", "c2"]
    ops, k = [], 0
    for seg in range(m):
        for _ in range(rng.randint(1, cap)):
            k += 1; ops += [store_op(k, rng.choice(ctxs)), {"op": "sync"}]
        ops.append({"op": "flush"})
    ops += [{"op": "compact"}, {"op": "restart_clean"}, {"op": "arm"}]
    for _ in range(cap + rng.randint(1, cap + 1)):
        k += 1; ops += [store_op(k, rng.choice(ctxs)), {"op": "sync"}]
    if rng.random() < 0.5:
        ops.append({"op": "flush"})
    return ops


def t_auto_crash_auto(rng, cfg):
    """Auto-flush only across a *crash* restart: the WAL writer resumes a partly filled log and must stay in
    step with the recovered memtable (no manual FLUSH, no clean shutdown anywhere)."""
    cap = cfg["fill_factor"] * cfg["event_per_zone"]
    ctxs = [f"c{i}" for i in range(rng.randint(2, 4))]
    ops, k = [], 0
    n1 = cap * rng.randint(0, 2) + rng.randint(1, max(1, cap - 1)) if cap > 1 else rng.randint(1, 3)
    for _ in range(n1):
        k += 1; ops += [store_op(k, rng.choice(ctxs)), {"op": "sync"}]
    ops.append({"op": "restart_kill"})
    ops.append({"op": "arm"})
    for _ in range(cap * 2 + rng.randint(1, cap + 1)):
        k += 1; ops += [store_op(k, rng.choice(ctxs)), {"op": "sync"}]
        _settle(rng, ops, 0.5)
    return ops


TEMPLATES = {"auto_crash_auto": t_auto_crash_auto, "auto": t_auto, "manual_flush": t_manual, "empty_flush": t_empty_flush, "restart": t_restart,
             "compact": t_compact, "compact_restart": t_compact_restart}


def gen_cfg(rng, buffered=False):
    cfg = dict(shard_count=rng.choice([1, 2, 3]), event_per_zone=rng.choice([1, 2]), fill_factor=rng.choice([1, 2, 3, 4]),
               segments_per_merge=rng.choice([2, 3]), flush_each_write=not buffered)
    return cfg


def scan_wal(root):
    """k values (by event type) whose WAL line is currently on disk under root/wal/shard-*/wal-*.log."""
    import glob, os
    found = set()
    for p in glob.glob(os.path.join(root, "wal", "shard-*", "wal-*.log")):
        try:
            with open(p, "rb") as f:
                for line in f:
                    try:
                        o = json.loads(line)
                        found.add((o.get("event_type"), o["payload"]["k"]))
                    except Exception:
                        continue
        except OSError:
            continue
    return found


class Played:
    def __init__(self):
        self.present_after_crash = {}
        self.wal_seen = set()       # (type, k) whose WAL line was observed on disk at some barrier
        self.wal_at_crash = set()   # (type, k) whose WAL line is on disk right after the crash
        self.applied = {}    # k -> op
        self.open = {}       # k -> op  (acked or in flight, no barrier after)
        self.died = False
        self.died_at = None
        self.exit_code = None
        self.trace = None
        self.compactions = []
        self.fired = False


def play(lt, ops, crash=None, trace=False, on_step=None):
    """Run ops on lt (started here). crash = {"point":..,"nth":..,"arg":optional}: armed at the 'arm' op.
    Returns Played. Leaves lt with a dead node if the crash fired (or after SIGKILL when it did not)."""
    pl = Played()
    node = lt.start()
    pending = {}
    life = 0            # process lifetime index; an op records the lifetime it was stored in
    try:
        must_ok(node.cmd(DEFINE), "define")
        must_ok(node.cmd(DEFINE2), "define2")
        for i, op in enumerate(ops):
            o = op["op"]
            if o == "arm":
                if trace:
                    node.meta("trace on")
                if crash and crash.get("point") not in (None, "kill"):
                    a = f"arm {crash['point']} {crash['nth']} crash"
                    node.meta(a)
                continue
            if o == "store":
                op["life"] = life
                pending[op["k"]] = op
                rep = node.cmd(store_text(op))
                if not rep.ok:
                    pending.pop(op["k"], None)
                    raise Inconclusive(f"store rejected: {rep!r}")
            elif o == "sync":
                node.sync()
                pl.applied.update(pending); pending = {}
                pl.wal_seen |= scan_wal(lt.root)
            elif o == "flush":
                rep = node.cmd("FLUSH", timeout=60)
                if rep.ok:
                    node.sync()
                    pl.applied.update(pending); pending = {}
            elif o == "compact":
                for s in range(node.cfg["shard_count"]):
                    pl.compactions.append(node.meta(f"compact {s}", timeout=120))
            elif o == "syncflush":
                node.syncflush()
                pl.applied.update(pending); pending = {}
                pl.wal_seen |= scan_wal(lt.root)
            elif o == "restart_kill":
                node.syncflush()          # quiescent, so the first lifetime's outcome is deterministic
                pl.applied.update(pending); pending = {}
                node = lt.restart_kill()
                life += 1
            elif o == "restart_clean":
                node.syncflush()
                pl.applied.update(pending); pending = {}
                node = lt.restart_clean()
                life += 1
            if on_step:
                on_step(i, op, node)
        if trace:
            pl.trace = node.meta("trace take")["trace"]
    except NodeDied as e:
        pl.died = True
        pl.died_at = i
        pl.exit_code = e.code
        pl.fired = (e.code == 137)
    pl.open = pending
    if not pl.died:
        pl.wal_seen |= scan_wal(lt.root)
        # crash between two commands (SIGKILL while idle)
        node.kill()
        pl.exit_code = node.exit_code
    pl.wal_at_crash = scan_wal(lt.root)
    pl.unindexed_dir_at_crash = unindexed_dirs(lt.root)
    return pl


def unindexed_dirs(root):
    """True if some shard has a numeric segment directory while its segments.idx does not exist (first flush of the
    shard crashed before its index entry was written)."""
    import glob, os
    for sd in glob.glob(os.path.join(root, "cols", "shard-*")):
        has_dir = any(d.isdigit() for d in os.listdir(sd) if os.path.isdir(os.path.join(sd, d)))
        if has_dir and not os.path.exists(os.path.join(sd, "segments.idx")):
            return True
    return False


def enumerate_points(trace):
    c = collections.Counter()
    for ent in trace:
        name = ent[0]
        if name.startswith("rd."):
            continue
        c[name] += 1
    return c


def point_group(p):
    return p.split(".")[0] if p else "kill"
