"""C03 stress mode: real TCP connections (the repo's run_tcp_server), concurrent writers and readers, seeded delays
at read-path and flush-path hook points; interval oracle over the recorded history."""
import json
import random
import socket
import threading
import time

from . import gen
from .hist import Lifetimes, must_ok
from .node import Inconclusive


def free_port():
    s = socket.socket()
    s.bind(("127.0.0.1", 0))
    p = s.getsockname()[1]
    s.close()
    return p


class TcpClient:
    """Line client for the TCP front-end (UnixRenderer text protocol)."""

    def __init__(self, port, timeout=20.0):
        self.sock = socket.create_connection(("127.0.0.1", port), timeout=timeout)
        self.f = self.sock.makefile("rwb", buffering=0)

    def close(self):
        try:
            self.sock.close()
        except OSError:
            pass

    def send(self, line):
        self.f.write(line.encode("utf-8") + b"\n")

    def store(self, line):
        self.send(line)
        head = self.f.readline().decode("utf-8", "replace")
        if head.startswith("200"):
            self.f.readline()
            return True, head
        return False, head

    def query(self, line):
        """Returns (ok, columns, rows, raw_head)."""
        self.send(line)
        head = self.f.readline().decode("utf-8", "replace")
        if not head.startswith("{"):
            return False, None, None, head
        cols, rows = None, []
        cur = head
        while True:
            o = json.loads(cur)
            t = o.get("type")
            if t == "schema":
                cols = [c["name"] for c in o["columns"]]
            elif t == "batch":
                rows.extend(o["rows"])
            elif t == "row":
                rows.append([o["values"].get(c) for c in cols])
            elif t == "end":
                break
            cur = self.f.readline().decode("utf-8", "replace")
            if not cur:
                return False, cols, rows, "EOF"
        return True, cols, rows, head


def stress_task(task, wdir, res):
    rng = random.Random(task["seed"])
    port = free_port()
    cfg = dict(shard_count=rng.choice([1, 2, 3]), event_per_zone=rng.choice([1, 2, 3]), fill_factor=rng.choice([1, 2, 3]),
               segments_per_merge=2, tcp_port=port)
    lt = Lifetimes(wdir, **cfg)
    node = lt.start()
    res.count("tasks"); res.count("stress_histories")
    witness = {"mode": "stress", "seed": task["seed"], "config": cfg}
    sig = {"mode": "stress"}
    try:
        must_ok(node.cmd('DEFINE ev FIELDS { k: "int", v: "string" }'), "define")
        node.meta("serve")
        node.meta("trace on")
        delays = []
        for p in rng.sample(["rd.plan_built", "rd.passive_snapshot", "rd.memtable_flow_start", "rd.segment_flow_start", "fl.dequeued",
                             "fr.before_index", "fl.flushed", "fl.verified", "fl.published", "fl.passive_cleared", "fl.task_done", "zw.columns"],
                            rng.randint(2, 5)):
            ms = rng.choice([1, 2, 3, 5])
            node.meta(f"arm {p} 0 delay:{ms}")
            delays.append((p, ms))
        witness["delays"] = delays
        nw, nr = rng.randint(2, 3), rng.randint(2, 3)
        burst = rng.choice([10, 15, 25])
        quiet = rng.choice([0.15, 0.25])
        per_writer = task["ops"] // (nw + nr)
        hist = []           # dicts: kind, k / read, t_call, t_ret, result
        lock = threading.Lock()
        errors = []
        stop = threading.Event()

        def writer(wid):
            r = random.Random(task["seed"] * 31 + wid)
            try:
                c = TcpClient(port)
                for i in range(per_writer):
                    k = wid * 100000 + i
                    ctx = f"w{wid}c{r.randint(0, 2)}"
                    rec = {"kind": "store", "k": k, "ctx": ctx, "t_call": time.monotonic(), "t_ret": None, "ok": None}
                    with lock:
                        hist.append(rec)
                    ok, head = c.store(gen.store_cmd("ev", ctx, {"k": k, "v": f"v{k}"}))
                    rec["t_ret"] = time.monotonic()
                    rec["ok"] = ok
                    if not ok:
                        rec["head"] = head
                    if r.random() < 0.2:
                        time.sleep(r.random() * 0.004)
                    if i % burst == burst - 1:
                        time.sleep(quiet)      # quiet period: flushes drain, readers keep reading a stable state
                c.close()
            except Exception as e:   # connection trouble is a harness matter
                errors.append(f"writer {wid}: {e!r}")

        def reader(rid):
            r = random.Random(task["seed"] * 77 + rid)
            try:
                c = TcpClient(port)
                while not stop.is_set():
                    kind = r.choice(["query", "query", "count", "replay"])
                    if kind == "query":
                        q = "QUERY ev RETURN [k]"
                    elif kind == "count":
                        q = "QUERY ev COUNT"
                    else:
                        q = f"REPLAY ev FOR w{r.randint(1, nw)}c{r.randint(0, 2)}"
                    rec = {"kind": kind, "q": q, "t_call": time.monotonic(), "t_ret": None}
                    ok, cols, rows, head = c.query(q)
                    rec["t_ret"] = time.monotonic()
                    rec["ok"], rec["cols"], rec["rows"], rec["head"] = ok, cols, rows, head
                    with lock:
                        hist.append(rec)
                    time.sleep(r.random() * 0.003)
                c.close()
            except Exception as e:
                errors.append(f"reader {rid}: {e!r}")

        ws = [threading.Thread(target=writer, args=(i + 1,)) for i in range(nw)]
        rs = [threading.Thread(target=reader, args=(i + 1,)) for i in range(nr)]
        for t in ws + rs:
            t.start()
        for t in ws:
            t.join(120)
        time.sleep(0.05)
        stop.set()
        for t in rs:
            t.join(60)
        if errors:
            raise Inconclusive("; ".join(errors)[:400])
        stores = [h for h in hist if h["kind"] == "store"]
        reads = [h for h in hist if h["kind"] != "store"]
        rejected = [s for s in stores if s["ok"] is False]
        res.count("stress_stores", len(stores)); res.count("stress_reads", len(reads)); res.count("stress_rejected_stores", len(rejected))
        st_final = node.meta("state")
        # windows in which some rotated memtable was in flight but its segment not yet indexed (from the hook trace,
        # CLOCK_MONOTONIC on both sides): reads overlapping such a window fall under the listed in-flight finding
        tr = node.meta("trace take")["trace"]
        dirty, open_n, t_open = [], 0, None
        for name, arg, t_ns in tr:
            t = t_ns / 1e9
            if name == "ins.rotated":
                if open_n == 0:
                    t_open = t
                open_n += 1
            elif name == "fr.index_added":
                open_n = max(0, open_n - 1)
                if open_n == 0 and t_open is not None:
                    dirty.append((t_open, t)); t_open = None
        if t_open is not None:
            dirty.append((t_open, float("inf")))

        def overlaps_dirty(a, b):
            return any(not (b < lo or a > hi) for lo, hi in dirty)
        n_clean_reads = 0
        for rd in reads:
            rd["dirty"] = overlaps_dirty(rd["t_call"] - 0.002, rd["t_ret"] + 0.002)
            n_clean_reads += 0 if rd["dirty"] else 1
        res.count("stress_reads_outside_unindexed_inflight_windows", n_clean_reads)
        base_sig = dict(sig)
        for rd in reads:
            sig = dict(base_sig, inflight_unindexed=rd["dirty"], flushing=True)   # reads run concurrently with auto-flushes by construction
            res.evaluations += 1
            must = {s["k"]: s for s in stores if s["ok"] and s["t_ret"] is not None and s["t_ret"] < rd["t_call"]}
            may = {s["k"]: s for s in stores if s["t_call"] < rd["t_ret"] and s["ok"] is not False}
            s_ = dict(sig, read=rd["kind"])
            w = dict(witness, query=rd["q"])
            if not rd["ok"]:
                if rd["kind"] == "replay" and not any(s["ctx"] == rd["q"].split()[-1] for s in must.values()):
                    continue
                res.violation("read_failed", s_, f"{rd['q']}: {rd['head'][:100]}", w)
                continue
            if rd["kind"] == "count":
                cnt = rd["rows"][0][0] if rd["rows"] and rd["rows"][0] else 0
                if cnt < len(must) or cnt > len(may):
                    res.violation("count_wrong", dict(s_, direction="low" if cnt < len(must) else "high"),
                                  f"COUNT={cnt} not in [{len(must)} acked before call, {len(may)} issued before return]", w)
                continue
            ki = rd["cols"].index("k") if rd["cols"] and "k" in rd["cols"] else None
            if ki is None:
                continue
            ks = [r[ki] for r in rd["rows"]]
            exp = set(must) if rd["kind"] == "query" else {k for k, s in must.items() if s["ctx"] == rd["q"].split()[-1]}
            missing = sorted(exp - set(ks))
            dup = sorted({k for k in ks if ks.count(k) > 1}, key=str)
            foreign = sorted(set(ks) - set(may), key=str)
            res.nontrivial(("stress", rd["kind"], min(len(must), 5), len(missing) > 0, len(dup) > 0))
            if missing:
                res.violation("applied_event_not_visible", s_, f"{rd['q']}: acked before the call but missing k={missing[:8]} ({len(ks)} rows, {len(must)} acked)", w)
            if dup:
                res.violation("event_visible_twice", s_, f"{rd['q']}: k={dup[:8]} returned more than once", w)
            if foreign:
                res.violation("unissued_row", s_, f"{rd['q']}: k={foreign[:8]}", w)
        # final quiescent read: everything acked exactly once
        sig = dict(base_sig)
        node.syncflush()
        repc = node.cmd("QUERY ev COUNT")
        cntq = repc.rows[0][0] if repc.rows and repc.rows[0] else None
        nack = len({s["k"] for s in stores if s["ok"]})
        res.evaluations += 1
        if cntq != nack and not any(s["ok"] is None for s in stores):
            res.violation("count_wrong", dict(sig, read="final_quiescent", flushing=False, direction="high" if (cntq or 0) > nack else "low"),
                          f"after the run (all flushes awaited): COUNT={cntq}, {nack} stores acknowledged", dict(witness, query="QUERY ev COUNT"))
        rep = node.cmd("QUERY ev RETURN [k]")
        ks = [r.get("k") for r in rep.dicts()] if rep.rows is not None else []
        acked = {s["k"] for s in stores if s["ok"]}
        if sorted(ks) != sorted(acked):
            missing = sorted(acked - set(ks)); dup = sorted({k for k in ks if ks.count(k) > 1}, key=str)
            # attribution: are the rows back after a clean restart (stale in-process state) or gone for good?
            node = lt.restart_clean()
            rep2 = node.cmd("QUERY ev RETURN [k]")
            ks2 = [r.get("k") for r in rep2.dicts()] if rep2.rows is not None else []
            still = sorted(acked - set(ks2))
            pers = "permanent" if still else "transient_until_restart"
            res.violation("applied_event_not_visible" if missing else "event_visible_twice", dict(sig, read="final_quiescent", persistence=pers),
                          f"after the run: missing={missing[:8]} dup={dup[:8]} ({len(ks)} rows, {len(acked)} acked); after restart still missing={still[:8]}",
                          dict(witness, state=st_final))
        res.sample({"mode": "stress", "config": {k: v for k, v in cfg.items() if k != 'tcp_port'}, "writers": nw, "readers": nr, "stores": len(stores),
                    "reads": len(reads), "delays": delays})
    finally:
        lt.stop()


def run_stress(run, n):
    tasks = [{"name": f"st{i}", "seed": run.rng("stress", i).getrandbits(32), "ops": 300} for i in range(n)]
    run.parallel(stress_task, tasks, nproc=8)


def replay(run, w):
    run.parallel(stress_task, [{"name": "replay", "seed": w["seed"], "ops": 300}], nproc=1)
