"""History driver: the same stored events are walked through storage layouts ("tiers") and an
observer is invoked at every quiescent stage."""
import os

from .node import Node, Inconclusive, NodeDied


class Lifetimes:
    """A sequence of vnode lifetimes over one root directory."""

    def __init__(self, root, **cfg):
        self.root = root
        self.cfg = cfg
        self.history = []
        self.n = 0
        self.node = None

    def start(self, env=None):
        self.node = Node(self.root, history=self.history, lifetime=self.n, env=env, **self.cfg).start()
        self.n += 1
        return self.node

    def restart_clean(self):
        self.node.shutdown()
        return self.start()

    def restart_kill(self):
        self.node.kill()
        return self.start()

    def stop(self):
        if self.node and self.node.alive():
            self.node.kill()

    def compact_all(self, rounds=1):
        """Run `rounds` deterministic compaction rounds on every shard; returns list of results."""
        out = []
        for _ in range(rounds):
            for s in range(self.node.cfg["shard_count"]):
                out.append(self.node.meta(f"compact {s}", timeout=120))
        return out

    def wait_reclaim(self):
        """Reclaim of retired inputs is a spawned task; wait until no .reclaim work is pending."""
        import time
        for _ in range(200):
            st = self.node.meta("state")
            busy = False
            for sh in st:
                idx = sh["index"] or []
                named = {("%05d" % e["id"]) for e in idx} if isinstance(idx, list) else set()
                for d in sh["dirs"]:
                    if d == ".reclaim":
                        sub = os.path.join(self.root, "cols", f"shard-{sh['shard']}", ".reclaim")
                        try:
                            if any(os.scandir(p.path) for p in os.scandir(sub) if p.is_dir() and any(True for _ in os.scandir(p.path))):
                                busy = True
                        except OSError:
                            pass
            if not busy:
                return
            time.sleep(0.01)


def must_ok(rep, what):
    if not rep.ok:
        raise Inconclusive(f"{what}: unexpected reply {rep!r} raw={rep.raw[:300]!r}")
    return rep


def walk_tiers(root, cfg, setup_cmds, store_cmds, observe, stages=("mem", "flush", "c1", "c2", "restart"),
               check_ack=True):
    """Store everything, then walk the layouts, calling observe(stage, node) at each quiescent point.
    Returns the Lifetimes (stopped)."""
    lt = Lifetimes(root, **cfg)
    node = lt.start()
    try:
        for c in setup_cmds:
            must_ok(node.cmd(c), f"setup {c[:80]}")
        for c in store_cmds:
            rep = node.cmd(c)
            if check_ack:
                must_ok(rep, f"store {c[:120]}")
        node.syncflush()   # quiescent: WAL drained and every queued background flush finished
        if "mem" in stages:
            # name the stage by what the layout really is: "mem" = nothing flushed yet
            st = node.meta("state")
            on_disk = any(sh["live"] or sh["inflight"] for sh in st)
            observe("mixed" if on_disk else "mem", node)
        if "flush" in stages or "c1" in stages or "c2" in stages:
            must_ok(node.cmd("FLUSH", timeout=60), "FLUSH")
            node.syncflush()
            if "flush" in stages:
                observe("flush", node)
        if "c1" in stages:
            lt.compact_all(1)
            observe("c1", node)
        if "c2" in stages:
            lt.compact_all(1)
            observe("c2", node)
        if "restart" in stages:
            node = lt.restart_clean()
            observe("restart", node)
    finally:
        lt.stop()
    return lt


def walk_crash(root, cfg, setup_cmds, store_cmds, observe):
    """No manual FLUSH: store, WAL-drained barrier, SIGKILL, restart -> 'recovered' tier."""
    lt = Lifetimes(root, **cfg)
    node = lt.start()
    try:
        for c in setup_cmds:
            must_ok(node.cmd(c), f"setup {c[:80]}")
        for c in store_cmds:
            must_ok(node.cmd(c), f"store {c[:120]}")
        node.syncflush()
        node = lt.restart_kill()
        observe("recovered", node)
    finally:
        lt.stop()
    return lt
