"""Reference evaluation of WHERE predicates (three-valued: True / False / None=unspecified) and a
predicate generator over typed schema fields."""
import datetime
import json

from . import gen

OPS = ["=", "!=", "<", "<=", ">", ">="]


class Leaf:
    def __init__(self, field, op, lit, lit_kind, text):
        self.field, self.op, self.lit, self.lit_kind, self.text = field, op, lit, lit_kind, text

    def cls(self, schema):
        f = schema.by_name[self.field]
        return (f.kind + ("?" if f.optional else ""), self.op, self.lit_kind)

    def render(self):
        return self.text

    def leaves(self):
        return [self]

    def shape(self):
        return "leaf"


class In:
    def __init__(self, field, lits, lit_kind, text):
        self.field, self.lits, self.lit_kind, self.text = field, lits, lit_kind, text
        self.op = "IN"

    def cls(self, schema):
        f = schema.by_name[self.field]
        return (f.kind + ("?" if f.optional else ""), "IN", self.lit_kind)

    def render(self):
        return self.text

    def leaves(self):
        return [self]

    def shape(self):
        return "leaf"


class Not:
    def __init__(self, a):
        self.a = a

    def render(self):
        return "NOT " + (self.a.render() if isinstance(self.a, (Leaf, In)) else "(" + self.a.render() + ")")

    def leaves(self):
        return self.a.leaves()

    def shape(self):
        return "NOT(" + self.a.shape() + ")"


class Bin:
    def __init__(self, op, a, b):
        self.op, self.a, self.b = op, a, b

    def render(self):
        return "(" + self.a.render() + f") {self.op} (" + self.b.render() + ")"

    def leaves(self):
        return self.a.leaves() + self.b.leaves()

    def shape(self):
        return f"{self.op}({self.a.shape()},{self.b.shape()})"


def cmp_op(op, a, b):
    if op == "=":
        return a == b
    if op == "!=":
        return a != b
    if op == "<":
        return a < b
    if op == "<=":
        return a <= b
    if op == ">":
        return a > b
    return a >= b


def eval_leaf(leaf, schema, payload_expect):
    """payload_expect: field -> stored (normalised) value or None/absent."""
    f = schema.by_name[leaf.field]
    v = payload_expect.get(leaf.field)
    if v is None:
        return None
    if isinstance(leaf, In):
        rs = [eval_cmp(f, "=", v, l) for l in leaf.lits]
        if any(r is True for r in rs):
            return True
        if any(r is None for r in rs):
            return None
        return False
    return eval_cmp(f, leaf.op, v, leaf.lit)


def eval_cmp(f, op, v, lit):
    k = f.kind
    if k in ("int", "u64", "float", "datetime", "date"):
        if isinstance(lit, bool) or not isinstance(lit, (int, float)):
            return None
        # exact comparison of int vs float without precision loss for the domains used here
        return cmp_op(op, v, lit)
    if k in ("string", "enum"):
        if not isinstance(lit, str):
            return None
        if op in ("=", "!="):
            return cmp_op(op, v, lit)
        return None  # ordering of strings: not documented -> layout invariance only
    if k == "bool":
        if not isinstance(lit, bool):
            return None
        if op in ("=", "!="):
            return cmp_op(op, v, lit)
        return None
    return None


def evaluate(e, schema, payload_expect):
    if isinstance(e, (Leaf, In)):
        return eval_leaf(e, schema, payload_expect)
    if isinstance(e, Not):
        r = evaluate(e.a, schema, payload_expect)
        return None if r is None else (not r)
    a = evaluate(e.a, schema, payload_expect)
    b = evaluate(e.b, schema, payload_expect)
    if e.op == "AND":
        if a is False or b is False:
            return False
        if a is None or b is None:
            return None
        return True
    if a is True or b is True:
        return True
    if a is None or b is None:
        return None
    return False


def iso(ts, offset_h=0):
    dt = datetime.datetime.fromtimestamp(ts, datetime.timezone(datetime.timedelta(hours=offset_h)))
    s = dt.strftime("%Y-%m-%dT%H:%M:%S")
    if offset_h == 0:
        return s + "Z"
    return s + ("%+03d:00" % offset_h)


def lit_text(v):
    if isinstance(v, bool):
        return "true" if v else "false"
    if isinstance(v, float):
        t = repr(v)
        if "e" in t or "inf" in t or "nan" in t:
            t = "%.6f" % v
        return t
    if isinstance(v, int):
        return str(v)
    return json.dumps(v, ensure_ascii=False)


def gen_leaf(rng, schema, data_values, allow=None):
    """data_values: field -> list of values present in the data (normalised)."""
    fields = [f for f in schema.fields if f.name != "k"]
    if allow:
        fields = [f for f in fields if allow(f)]
    f = rng.choice(fields + [schema.by_name["k"]])
    present = [v for v in data_values.get(f.name, []) if v is not None]
    k = f.kind
    op = rng.choice(OPS)
    if k in ("int", "u64"):
        r = rng.random()
        if r < 0.45 and present:
            lit, lk = rng.choice(present), "int_present"
        elif r < 0.6:
            lit, lk = (max(present) + 1 if present else 1), "int_above_max"
        elif r < 0.75:
            lit, lk = (min(present) - 1 if present else -1), "int_below_min"
            if k == "u64" and lit < 0:
                lk = "int_negative"
        elif r < 0.85:
            lit, lk = rng.choice([4, 6, 50, 1000]), "int_absent"
        else:
            base = rng.choice(present) if present else 1
            lit, lk = base + 0.5, "float_nonintegral"
    elif k == "float":
        r = rng.random()
        if r < 0.4 and present:
            lit = rng.choice(present)
            lk = "float_present" if lit != int(lit) else "float_present_integral"
        elif r < 0.6:
            lit, lk = rng.choice([0, 1, 2, -1, 3]), "int_literal"
        elif r < 0.8:
            lit, lk = rng.choice([0.25, 1.7, -2.75, 2.5]), "float_absent"
        else:
            lit, lk = (max(present) + 1.5 if present else 9.5), "float_above_max"
    elif k == "string":
        op = rng.choice(["=", "!=", "=", "!=", "<", ">="])
        r = rng.random()
        if r < 0.6 and present:
            lit, lk = rng.choice(present), "str_present"
            if lit == "":
                lk = "str_empty"
        else:
            lit, lk = rng.choice(["nope", "a b", "A", "abcd"]), "str_absent"
    elif k == "enum":
        op = rng.choice(["=", "!="])
        if rng.random() < 0.75:
            lit, lk = rng.choice(f.variants), "variant"
        else:
            lit, lk = "unknown_variant", "unknown_variant"
    elif k == "bool":
        op = rng.choice(["=", "!="])
        lit, lk = rng.random() < 0.5, "bool"
    else:  # datetime / date
        base = rng.choice(present) if present and rng.random() < 0.7 else 1700000030
        r = rng.random()
        if r < 0.5:
            lit, lk = base, "epoch_s"
            txt = str(base)
        elif r < 0.8:
            lit, lk = base, "iso_z"
            txt = json.dumps(iso(base))
        else:
            lit, lk = base, "iso_offset"
            txt = json.dumps(iso(base, rng.choice([2, -5])))
        return Leaf(f.name, op, lit, lk, f"{f.name} {op} {txt}")
    if rng.random() < 0.15 and k in ("int", "u64", "float", "string", "enum"):
        # IN list
        lits = [lit]
        for _ in range(rng.randint(0, 2)):
            if present and rng.random() < 0.7:
                lits.append(rng.choice(present))
            else:
                lits.append(lit)
        text = f"{f.name} IN (" + ", ".join(lit_text(x) for x in lits) + ")"
        return In(f.name, lits, lk, text)
    return Leaf(f.name, op, lit, lk, f"{f.name} {op} {lit_text(lit)}")


def gen_tree(rng, schema, data_values, depth, allow=None):
    if depth == 0 or rng.random() < 0.3:
        return gen_leaf(rng, schema, data_values, allow)
    r = rng.random()
    if r < 0.25:
        return Not(gen_tree(rng, schema, data_values, depth - 1, allow))
    op = "AND" if r < 0.62 else "OR"
    return Bin(op, gen_tree(rng, schema, data_values, depth - 1, allow), gen_tree(rng, schema, data_values, depth - 1, allow))
