//! C18 direct monitor: EventIdGenerator::next under a scripted millisecond clock.
//! input: {"shard": n, "ops": [{"op":"clock","now":ms,"every":reads_per_ms} | {"op":"clock_delta","delta":±ms,"every":n}
//!                             | {"op":"gen","calls":n,"tag":"..."} | {"op":"restart"}]}
//! The oracle runs here, online: every id is compared with the previous id of the shard (strictly increasing, also across
//! "restart" = a fresh generator as a new process lifetime would have), checked for its shard bits and entered into a set.
use serde_json::{Value, json};
use snel_db::engine::core::EventIdGenerator;
use std::collections::HashSet;
use verif_harness::hooks::{self, Clock};

pub fn run(input: &Value) -> Value {
    hooks::install();
    let shard = input["shard"].as_u64().unwrap_or(0) as u16;
    let mut generator = EventIdGenerator::new();
    let mut seen: HashSet<u64> = HashSet::new();
    let mut prev: Option<u64> = None;
    let mut total = 0u64;
    let mut violations: Vec<Value> = Vec::new();
    let mut lifetimes = 1u64;
    let mut max_per_ms = 0u64;
    let mut cur_ms = u64::MAX;
    let mut cur_ms_count = 0u64;
    let mut seq_wraps = 0u64;
    let mut clock_behind_calls = 0u64;
    let mut distinct_ms = 0u64;
    let mut since_restart = 0u64;
    let empty = Vec::new();
    for (opi, op) in input["ops"].as_array().unwrap_or(&empty).iter().enumerate() {
        match op["op"].as_str().unwrap_or("") {
            "clock" => {
                hooks::set_clock(Clock::Every {
                    now: op["now"].as_u64().unwrap_or(0),
                    every: op["every"].as_u64().unwrap_or(1).max(1),
                    reads: 0,
                });
            }
            "clock_delta" => {
                let cur = hooks::peek_clock().unwrap_or(0) as i128;
                let now = (cur + op["delta"].as_i64().unwrap_or(0) as i128).max(0) as u64;
                hooks::set_clock(Clock::Every { now, every: op["every"].as_u64().unwrap_or(1).max(1), reads: 0 });
            }
            "restart" => {
                generator = EventIdGenerator::new();
                lifetimes += 1;
                since_restart = 0;
            }
            "gen" => {
                let calls = op["calls"].as_u64().unwrap_or(0);
                let tag = op["tag"].as_str().unwrap_or("");
                for i in 0..calls {
                    let clock_before = hooks::peek_clock().unwrap_or(0);
                    let id = generator.next(shard).raw();
                    total += 1;
                    since_restart += 1;
                    let ms = (id >> 22) + 1_609_459_200_000;
                    let sh = ((id >> 12) & 0x3ff) as u16;
                    let seq = id & 0xfff;
                    if clock_before < ms {
                        clock_behind_calls += 1;
                    }
                    if ms != cur_ms {
                        cur_ms = ms;
                        cur_ms_count = 0;
                        distinct_ms += 1;
                    }
                    cur_ms_count += 1;
                    max_per_ms = max_per_ms.max(cur_ms_count);
                    if seq == 0 && cur_ms_count == 1 && i > 0 {
                        seq_wraps += 1;
                    }
                    let mut bad: Option<&str> = None;
                    if sh != (shard & 0x3ff) {
                        bad = Some("shard_bits");
                    } else if !seen.insert(id) {
                        bad = Some("duplicate_id");
                    } else if let Some(p) = prev {
                        if id <= p {
                            bad = Some("not_increasing");
                        }
                    }
                    if let Some(kind) = bad {
                        if violations.len() < 20 {
                            violations.push(json!({"kind": kind, "op_index": opi, "tag": tag, "call": i, "id": id, "prev": prev,
                                "ms": ms, "seq": seq, "clock_before": clock_before, "lifetime": lifetimes,
                                "first_call_of_lifetime": since_restart == 1}));
                        }
                    }
                    prev = Some(id);
                }
            }
            _ => {}
        }
    }
    hooks::set_clock(Clock::Real);
    json!({"total": total, "distinct_ids": seen.len(), "lifetimes": lifetimes, "max_ids_per_ms": max_per_ms, "distinct_ms": distinct_ms,
           "ticks_with_sequence_restart": seq_wraps, "calls_with_clock_behind_id": clock_behind_calls, "violations": violations})
}
