//! Policy side of the repo's `verif_hooks`: crash / pause / delay / snapshot actions at
//! named step points, per-point counters and trace, scripted clock, fault plans.
//! The monitor state is updated under one mutex; actions that block (pause, delay)
//! are performed after the mutex is released.

use once_cell::sync::Lazy;
use serde_json::{Value, json};
use std::collections::{BTreeMap, HashMap};
use std::sync::atomic::{AtomicBool, Ordering};
use std::sync::{Condvar, Mutex};
use std::time::Duration;

#[derive(Clone, Debug)]
pub enum Action {
    Crash,
    Pause,
    DelayMs(u64),
}

#[derive(Clone, Debug)]
pub struct Arm {
    pub point: String,
    /// fire on the n-th hit (1-based) counted from arming; 0 = every hit
    pub nth: u64,
    /// only count hits whose arg equals this (None = any)
    pub arg: Option<u64>,
    pub action: Action,
    pub hits: u64,
    pub fired: u64,
}

#[derive(Clone, Debug)]
pub enum Clock {
    Real,
    /// returns `now` and then advances it by `step` on every read
    Auto { now: u64, step: u64 },
    /// returns `now`; advances it by one millisecond after every `every` reads (bursts within one millisecond
    /// that still let a spin-wait for the next tick terminate)
    Every { now: u64, every: u64, reads: u64 },
}

#[derive(Default)]
pub struct State {
    pub arms: Vec<Arm>,
    pub counts: BTreeMap<String, u64>,
    pub trace_on: bool,
    /// (point, arg, CLOCK_MONOTONIC nanoseconds)
    pub trace: Vec<(String, u64, u64)>,
    pub parked: Vec<(String, u64)>,
    pub release_gen: u64,
    /// per point-name release generations (release of one parked point only)
    pub release_named: HashMap<String, u64>,
    /// fault plan: name -> set of args to fail (u64::MAX = all)
    pub faults: HashMap<String, Vec<u64>>,
    pub fault_hits: Vec<(String, u64, bool)>,
    /// per-shard WAL accounting for the WAL-drained barrier
    pub wal_enqueued: HashMap<u64, u64>,
    pub wal_written: HashMap<u64, u64>,
    /// snapshot mode: prefixes of point names at which an fs manifest is recorded
    pub snap_prefixes: Vec<String>,
    pub snaps: Vec<Value>,
    pub snap_root: Option<std::path::PathBuf>,
}

pub static STATE: Lazy<Mutex<State>> = Lazy::new(|| Mutex::new(State::default()));
pub static CV: Condvar = Condvar::new();
pub static CLOCK: Lazy<Mutex<Clock>> = Lazy::new(|| Mutex::new(Clock::Real));
static INSTALLED: AtomicBool = AtomicBool::new(false);

fn lock() -> std::sync::MutexGuard<'static, State> {
    STATE.lock().unwrap_or_else(|e| e.into_inner())
}

pub fn install() {
    if INSTALLED.swap(true, Ordering::SeqCst) {
        return;
    }
    snel_db::verif_hooks::install(snel_db::verif_hooks::Handler {
        point: on_point,
        now_millis: on_now,
        fault: on_fault,
    });
}

fn on_point(name: &'static str, arg: u64) {
    let mut todo: Vec<Action> = Vec::new();
    let mut snap_root = None;
    {
        let mut st = lock();
        *st.counts.entry(name.to_string()).or_insert(0) += 1;
        if name == "wal.enqueued" {
            *st.wal_enqueued.entry(arg).or_insert(0) += 1;
        } else if name == "wal.written" {
            *st.wal_written.entry(arg).or_insert(0) += 1;
        }
        if st.trace_on {
            st.trace.push((name.to_string(), arg, mono_ns()));
        }
        for arm in st.arms.iter_mut() {
            if arm.point != name {
                continue;
            }
            if let Some(a) = arm.arg {
                if a != arg {
                    continue;
                }
            }
            arm.hits += 1;
            if arm.nth == 0 || arm.hits == arm.nth {
                arm.fired += 1;
                todo.push(arm.action.clone());
            }
        }
        if st.snap_prefixes.iter().any(|p| name.starts_with(p.as_str())) {
            snap_root = st.snap_root.clone();
        }
    }
    if let Some(root) = snap_root {
        // what the on-disk segment index of every shard names (the index file is replaced by rename), read before and
        // after the directory walk: the walk is not atomic against the reclaim and flush tasks, so only a segment named at
        // both ends was published during the whole walk
        let read_index = |root: &std::path::Path| {
            let mut index = serde_json::Map::new();
            if let Ok(rd) = std::fs::read_dir(root) {
                for e in rd.flatten() {
                    let n = e.file_name().to_string_lossy().to_string();
                    if let Some(id) = n.strip_prefix("shard-") {
                        index.insert(id.to_string(), crate::fsmon::index_json(&e.path()));
                    }
                }
            }
            index
        };
        let index_before = read_index(&root);
        let m = crate::fsmon::manifest(&root, false);
        let index = read_index(&root);
        let mut st = lock();
        st.snaps.push(json!({"point": name, "arg": arg, "files": m, "index": index, "index_before": index_before}));
    }
    for a in todo {
        match a {
            Action::Crash => {
                // Process crash: no unwinding, no user-space buffer flush.
                eprintln!("VERIF-CRASH point={} arg={}", name, arg);
                unsafe { libc::_exit(137) }
            }
            Action::DelayMs(ms) => std::thread::sleep(Duration::from_millis(ms)),
            Action::Pause => {
                let mut st = lock();
                st.parked.push((name.to_string(), arg));
                let my_gen = st.release_gen;
                let my_named = st.release_named.get(name).copied().unwrap_or(0);
                CV.notify_all();
                while st.release_gen == my_gen
                    && st.release_named.get(name).copied().unwrap_or(0) == my_named
                {
                    st = CV.wait(st).unwrap_or_else(|e| e.into_inner());
                }
                st.parked.retain(|(n, a)| !(n == name && *a == arg));
                CV.notify_all();
            }
        }
    }
}

fn on_now() -> Option<u64> {
    let mut c = CLOCK.lock().unwrap_or_else(|e| e.into_inner());
    match &mut *c {
        Clock::Real => None,
        Clock::Auto { now, step } => {
            let v = *now;
            *now = now.saturating_add(*step);
            Some(v)
        }
        Clock::Every { now, every, reads } => {
            let v = *now;
            *reads += 1;
            if *reads >= (*every).max(1) {
                *reads = 0;
                *now = now.saturating_add(1);
            }
            Some(v)
        }
    }
}

fn on_fault(name: &'static str, arg: u64) -> bool {
    let mut st = lock();
    let hit = st
        .faults
        .get(name)
        .map(|v| v.contains(&arg) || v.contains(&u64::MAX))
        .unwrap_or(false);
    st.fault_hits.push((name.to_string(), arg, hit));
    hit
}

// ---- control API used by the bins -------------------------------------------------------

pub fn arm(point: &str, nth: u64, arg: Option<u64>, action: Action) {
    lock().arms.push(Arm {
        point: point.to_string(),
        nth,
        arg,
        action,
        hits: 0,
        fired: 0,
    });
}

pub fn disarm_all() {
    lock().arms.clear();
}

pub fn release() {
    let mut st = lock();
    st.release_gen += 1;
    CV.notify_all();
}

/// Release only the threads parked at point `name`.
pub fn release_point(name: &str) {
    let mut st = lock();
    *st.release_named.entry(name.to_string()).or_insert(0) += 1;
    CV.notify_all();
}

/// Wait until some thread is parked at `name` (or timeout).
pub fn wait_parked_at(name: &str, timeout: Duration) -> bool {
    let mut st = lock();
    let deadline = std::time::Instant::now() + timeout;
    while !st.parked.iter().any(|(n, _)| n == name) {
        let now = std::time::Instant::now();
        if now >= deadline {
            return false;
        }
        let (g, _) = CV
            .wait_timeout(st, deadline - now)
            .unwrap_or_else(|e| e.into_inner());
        st = g;
    }
    true
}

pub fn parked_now() -> Vec<(String, u64)> {
    lock().parked.clone()
}

/// Remove the arms for one point (so that later hits pass through).
pub fn disarm_point(name: &str) {
    lock().arms.retain(|a| a.point != name);
}

/// Wait until some thread is parked (or timeout). Returns the parked list.
pub fn wait_parked(timeout: Duration) -> Vec<(String, u64)> {
    let mut st = lock();
    let deadline = std::time::Instant::now() + timeout;
    while st.parked.is_empty() {
        let now = std::time::Instant::now();
        if now >= deadline {
            break;
        }
        let (g, _) = CV
            .wait_timeout(st, deadline - now)
            .unwrap_or_else(|e| e.into_inner());
        st = g;
    }
    st.parked.clone()
}

pub fn wait_unparked(timeout: Duration) -> bool {
    let mut st = lock();
    let deadline = std::time::Instant::now() + timeout;
    while !st.parked.is_empty() {
        let now = std::time::Instant::now();
        if now >= deadline {
            return false;
        }
        let (g, _) = CV
            .wait_timeout(st, deadline - now)
            .unwrap_or_else(|e| e.into_inner());
        st = g;
    }
    true
}

pub fn counts() -> BTreeMap<String, u64> {
    lock().counts.clone()
}

pub fn arms_json() -> Value {
    let st = lock();
    Value::Array(
        st.arms
            .iter()
            .map(|a| json!({"point": a.point, "nth": a.nth, "hits": a.hits, "fired": a.fired}))
            .collect(),
    )
}

pub fn set_trace(on: bool) {
    let mut st = lock();
    st.trace_on = on;
    if on {
        st.trace.clear();
    }
}

pub fn mono_ns() -> u64 {
    let mut ts = libc::timespec { tv_sec: 0, tv_nsec: 0 };
    unsafe { libc::clock_gettime(libc::CLOCK_MONOTONIC, &mut ts) };
    (ts.tv_sec as u64) * 1_000_000_000 + ts.tv_nsec as u64
}

pub fn take_trace() -> Vec<(String, u64, u64)> {
    std::mem::take(&mut lock().trace)
}

pub fn wal_drained() -> bool {
    let st = lock();
    st.wal_enqueued
        .iter()
        .all(|(s, n)| st.wal_written.get(s).copied().unwrap_or(0) >= *n)
}

pub fn wal_counters() -> Value {
    let st = lock();
    json!({"enqueued": st.wal_enqueued.iter().map(|(k,v)|(k.to_string(),*v)).collect::<BTreeMap<_,_>>(),
           "written": st.wal_written.iter().map(|(k,v)|(k.to_string(),*v)).collect::<BTreeMap<_,_>>()})
}

pub fn set_clock(c: Clock) {
    *CLOCK.lock().unwrap_or_else(|e| e.into_inner()) = c;
}

/// Current value of the scripted clock without advancing it (None: real clock).
pub fn peek_clock() -> Option<u64> {
    match &*CLOCK.lock().unwrap_or_else(|e| e.into_inner()) {
        Clock::Real => None,
        Clock::Auto { now, .. } => Some(*now),
        Clock::Every { now, .. } => Some(*now),
    }
}

/// Scripted clock that never moves backwards: `now` becomes max(requested, current scripted value).
/// Returns the value the next read will see.
pub fn set_clock_monotone(ms: u64, step: u64) -> u64 {
    let mut c = CLOCK.lock().unwrap_or_else(|e| e.into_inner());
    let cur = match &*c {
        Clock::Auto { now, .. } => *now,
        Clock::Every { now, .. } => *now,
        Clock::Real => 0,
    };
    let now = ms.max(cur);
    *c = Clock::Auto { now, step };
    now
}

pub fn set_fault(name: &str, args: Vec<u64>) {
    lock().faults.insert(name.to_string(), args);
}

pub fn clear_faults() {
    let mut st = lock();
    st.faults.clear();
    st.fault_hits.clear();
}

pub fn fault_hits() -> Vec<(String, u64, bool)> {
    lock().fault_hits.clone()
}

pub fn set_snap(root: Option<std::path::PathBuf>, prefixes: Vec<String>) {
    let mut st = lock();
    st.snap_root = root;
    st.snap_prefixes = prefixes;
}

pub fn take_snaps() -> Vec<Value> {
    std::mem::take(&mut lock().snaps)
}
