"""C08 - pruning structures never rule out a zone that holds a matching row.

The real engine flushes (and compacts) generated events into segments with many zones; `vunit c08` then loads every
structure through its file format and asks the pruners the query path uses (SuRF range, zone XOR, field XOR, enum
bitmap, temporal calendar + per-zone index, context index) for the candidate zones of generated probes.  The answer is
compared with a scan of the zone's rows (zone membership read back through the column reader by key, values from the
generator) under an independent typed comparison: every zone with a satisfying row must be a candidate."""
import json
import os
import random
import subprocess

from . import gen
from .gen import Field, Schema
from .hist import Lifetimes, must_ok
from .node import VUNIT, Inconclusive

RULE = ("history = schema over int / u64 (incl. > i64::MAX) / float (incl. integral) / string (empty, prefix-related, non-ASCII) / bool / "
        "enum / datetime (hour and day boundaries) fields x 40-120 events x zone size 1-4 (up to ~60 zones per segment), flushed to L0 "
        "and compacted to L1; probes: every present value, neighbours +-1 / +-0.5, absent values, extremes, literals of the other numeric "
        "kind, every enum variant and an unknown one, hour/day boundary instants, every context id; a case is one (structure, segment, "
        "probe) answer; distinct_nontrivial counts distinct (structure, field kind, operator, literal class, level) combinations in which "
        "the structure answered and at least one zone holds a match")


def make_history(rng):
    fields = [Field("k", "int"), Field("i", "int"), Field("u", "u64"), Field("f", "float"), Field("s", "string"), Field("b", "bool"),
              Field("e", "enum", variants=["red", "green", "blue", "Red"]), Field("t", "datetime"), Field("oi", "int", optional=True), Field("d", "date")]
    schema = Schema("ev", fields)
    n = rng.randint(40, 120)
    ctxs = [f"c{j}" for j in range(rng.randint(2, 6))]
    ivals = [-1000, -3, -1, 0, 1, 2, 5, 7, 70000, 2 ** 40, -2 ** 40]
    uvals = [0, 1, 2, 9, 40, 2 ** 63 + 5, 2 ** 64 - 1, 2 ** 62]
    fvals = [-2.5, -1.0, 0.0, 0.5, 1.0, 1.5, 2.0, 3.25, 1e9, -1e-3]
    svals = ["", "a", "ab", "abc", "abd", "b", "B", "zz", "é", "日本", "a b"]
    t0 = 1700000000 - 1700000000 % 86400
    tvals = [t0, t0 + 1800, t0 + 3599, t0 + 3600, t0 + 3601, t0 + 7200, t0 + 37800, t0 + 43200, t0 + 82200, t0 + 86399, t0 + 86400,
             t0 + 86400 + 600, t0 + 3 * 86400, t0 - 1]
    # a date field accepts epochs and RFC 3339 strings too and keeps the second: midnights and times of day side by side
    dvals = [t0 - 86400, t0, t0 + 86400, t0 + 2 * 86400, t0 + 50000, t0 + 86400 + 37000, t0 + 3 * 86400 + 1, t0 + 5 * 86400 - 1]
    # skew so that zones are not all alike: values drift with k
    events = []
    for j in range(n):
        drift = j / n
        def pick(vals):
            lo = int(drift * (len(vals) - 1))
            return vals[min(len(vals) - 1, max(0, lo + rng.choice([-2, -1, 0, 0, 1, 2])))] if rng.random() < 0.7 else rng.choice(vals)
        p = {"k": j, "i": pick(sorted(ivals)), "u": pick(sorted(uvals)), "f": pick(sorted(fvals)), "s": pick(sorted(svals)),
             "b": rng.random() < 0.5, "e": pick(fields[6].variants), "t": pick(sorted(tvals)), "d": pick(sorted(dvals))}
        r = rng.random()
        if r < 0.2:
            p["oi"] = None
        elif r < 0.5:
            p["oi"] = rng.choice([1, 2, 3])
        events.append({"k": j, "ctx": rng.choice(ctxs), "payload": p})
    cfg = dict(shard_count=rng.choice([1, 1, 2]), event_per_zone=rng.choice([1, 2, 3, 4]), fill_factor=200, segments_per_merge=2)
    return schema, events, cfg, ctxs, dict(i=ivals, u=uvals, f=fvals, s=svals, t=tvals, d=dvals)


def gen_probes(rng, schema, pools, ctxs, nmax):
    probes = []

    def add(col, op, val, kind, cls, temporal=False):
        if kind == "u64" and isinstance(val, int) and val > gen.I64_MAX:
            cls = "gt_i64_max"
        probes.append({"id": len(probes), "column": col, "op": op, "value": val, "kind": kind, "cls": cls, "temporal": temporal})

    for col, kind in (("i", "int"), ("k", "int"), ("u", "u64"), ("f", "float"), ("oi", "int?")):
        vals = pools.get(col) or list(range(0, 120, 7))
        for v in vals:
            for op in ("=", "<", "<=", ">", ">="):
                add(col, op, v, kind, "present")
            if kind != "float":
                for d, cls in ((1, "neighbour"), (-1, "neighbour")):
                    if kind == "u64" and v + d < 0:
                        continue
                    for op in rng.sample(["=", "<", "<=", ">", ">="], 2):
                        add(col, op, v + d, kind, cls)
                for op in rng.sample(["<", "<=", ">", ">="], 2):
                    add(col, op, v + 0.5, kind, "other_numeric_kind")
            else:
                for op in rng.sample(["=", "<", "<=", ">", ">="], 2):
                    add(col, op, v + 0.25, kind, "neighbour")
                if v == int(v):
                    for op in rng.sample(["=", "<", "<=", ">", ">="], 2):
                        add(col, op, int(v), kind, "other_numeric_kind")
        for ext in (-(2 ** 63), 2 ** 63 - 1, 0):
            if kind == "u64" and ext < 0:
                continue
            for op in ("<", ">=", "="):
                add(col, op, ext, kind, "extreme")
    for v in pools["s"] + ["nope", "abcd", "A"]:
        for op in ("=", "<", "<=", ">", ">="):
            add("s", op, v, "string", "present" if v in pools["s"] else "absent")
    for v in ("true", "false"):
        add("b", "=", v, "bool", "string_literal")
    for v in (True, False):
        add("b", "=", v, "bool", "json_bool")
    for v in schema.by_name["e"].variants + ["unknown"]:
        for op in ("=", "!="):
            add("e", op, v, "enum", "variant" if v != "unknown" else "unknown_variant")
    for v in pools["t"]:
        for d, cls in ((0, "present"), (1, "neighbour"), (-1, "neighbour")):
            for op in ("=", "<", "<=", ">", ">="):
                add("t", op, v + d, "datetime", cls, temporal=True)
    for v in pools["d"]:
        for d, cls in ((0, "present"), (1, "neighbour"), (-1, "neighbour")):
            for op in ("=", "<", "<=", ">", ">="):
                add("d", op, v + d, "date", cls, temporal=True)
    for c in ctxs + ["nobody"]:
        add("context_id", "=", c, "context", "present" if c != "nobody" else "absent")
    rng.shuffle(probes)
    probes = probes[:nmax]
    for i, p in enumerate(probes):
        p["id"] = i
    return probes


def satisfies(p, payload, ctx):
    col, op, lit = p["column"], p["op"], p["value"]
    if col == "context_id":
        return ctx == lit
    v = payload.get(col)
    if v is None:
        return False
    kind = p["kind"]
    if kind == "bool":
        litb = lit if isinstance(lit, bool) else (lit == "true")
        return v is litb if op == "=" else v is not litb
    if kind in ("string", "enum"):
        a, b = v, lit
        if kind == "string" and op not in ("=", "!="):
            a, b = v.encode("utf-8"), lit.encode("utf-8")      # order-preserving byte encoding
    else:
        a, b = v, lit
    return {"=": a == b, "!=": a != b, "<": a < b, "<=": a <= b, ">": a > b, ">=": a >= b}[op]


def check_shard(res, node, lt, shard, uid, schema, events, probes, level, witness):
    cfg_path = node.cfg_path
    base_dir = os.path.join(lt.root, "cols", f"shard-{shard}")
    args = {"base_dir": base_dir, "uid": uid, "event_type": "ev", "key_field": "k",
            "probes": [{k: p[k] for k in ("id", "column", "op", "value", "temporal")} for p in probes]}
    af = os.path.join(lt.root, f"c08-args-{shard}-{level}.json")
    with open(af, "w") as f:
        json.dump(args, f)
    env = dict(os.environ, SNELDB_CONFIG=cfg_path)
    pr = subprocess.run([VUNIT, "c08", af], env=env, capture_output=True, text=True, timeout=300)
    if pr.returncode != 0:
        raise Inconclusive(f"vunit c08 failed: {pr.stderr[-300:]}")
    out = json.loads(pr.stdout)
    by_k = {e["k"]: e for e in events}
    zones = {}   # seg -> zone -> list of events
    for seg, zs in out["zones"].items():
        for zid, d in zs.items():
            ks = d["k"]
            if isinstance(ks, dict):
                res.violation("zone_unreadable", {"level": level}, f"segment {seg} zone {zid}: {ks}", witness)
                continue
            zones.setdefault(seg, {})[int(zid)] = [by_k[int(x)] for x in ks if x.lstrip("-").isdigit() and int(x) in by_k]
    res.count("zones_observed", sum(len(z) for z in zones.values()))
    res.add_set("zones_per_segment", max([len(z) for z in zones.values()] or [0]))
    for po in out["probes"]:
        p = probes[po["id"]]
        for seg, structs in po["result"].items():
            zs = zones.get(seg, {})
            must = sorted(zid for zid, evs in zs.items() if any(satisfies(p, e["payload"], e["ctx"]) for e in evs))
            seg_level = "L0" if int(seg) < 10000 else "L1+"
            for sname, ans in structs.items():
                if ans is None:
                    continue
                res.evaluations += 1
                sig = {"structure": sname, "kind": p["kind"], "op": p["op"], "cls": p["cls"], "level": seg_level}
                if isinstance(ans, dict):
                    res.violation("structure_panicked" if ans.get("panic") else "structure_unreadable", sig,
                                  f"{sname} on {p['column']} {p['op']} {p['value']!r} segment {seg}: {ans}", dict(witness, probe=p))
                    continue
                res.add_set("structures_answering", f"{sname}/{p['kind']}")
                if must:
                    res.nontrivial((sname, p["kind"], p["op"], p["cls"], seg_level))
                missed = [z for z in must if z not in ans]
                if missed and p["kind"] == "u64":
                    # attribution: does the ruled-out zone hold a u64 value above i64::MAX (stored on another encoding lane)?
                    sig = dict(sig, zone_holds_u64_above_i64_max=any(isinstance(e["payload"].get(p["column"]), int) and e["payload"][p["column"]] > 2 ** 63 - 1
                                                                      for z in missed for e in zs[z]))
                if missed:
                    ex = [(e["k"], e["payload"].get(p["column"], e["ctx"])) for e in zs[missed[0]]][:4]
                    res.violation("zone_ruled_out", sig,
                                  f"{sname}: {p['column']} {p['op']} {p['value']!r} on segment {seg}: zones {missed[:6]} hold a match (e.g. zone {missed[0]} rows {ex}) "
                                  f"but candidates are {ans[:12]}", dict(witness, probe=p, segment=seg))


def history_task(task, wdir, res):
    rng = random.Random(task["seed"])
    schema, events, cfg, ctxs, pools = make_history(rng)
    probes = gen_probes(rng, schema, pools, ctxs, task["nprobes"])
    lt = Lifetimes(wdir, **cfg)
    node = lt.start()
    res.count("tasks"); res.count("histories")
    witness = {"seed": task["seed"], "config": cfg, "define": schema.define_cmd(), "events": len(events)}
    try:
        must_ok(node.cmd(schema.define_cmd()), "define")
        half = len(events) // 2
        for e in events[:half]:
            must_ok(node.cmd(gen.store_cmd("ev", e["ctx"], e["payload"])), "store")
        must_ok(node.cmd("FLUSH", timeout=60), "flush")
        for e in events[half:]:
            must_ok(node.cmd(gen.store_cmd("ev", e["ctx"], e["payload"])), "store")
        must_ok(node.cmd("FLUSH", timeout=60), "flush")
        node.syncflush()
        st = node.meta("state")
        uid = None
        for sh in st:
            for e in (sh["index"] or []):
                uid = e["uids"][0]
        if not uid:
            raise Inconclusive("no uid in index")
        for sh in st:
            check_shard(res, node, lt, sh["shard"], uid, schema, events, probes, "L0", witness)
        lt.compact_all(1)
        import time
        time.sleep(0.2)
        for sh in st:
            check_shard(res, node, lt, sh["shard"], uid, schema, events, probes, "compacted", witness)
        res.sample({"config": cfg, "events": len(events), "probes": len(probes), "example_probe": {k: probes[0][k] for k in ("column", "op", "value", "cls")}})
    finally:
        lt.stop()


def run(run):
    quick = run.tier == "quick"
    n = 16 if quick else 300
    tasks = [{"name": f"h{i}", "seed": run.rng("h", i).getrandbits(40), "nprobes": 500 if quick else 1200} for i in range(n)]
    run.min_distinct = 40
    run.assumptions = ["zone membership is read back through the repo's ColumnReader by the unique key k; values come from the generator",
                       "literal ScalarValues are built the way the query path builds them (ScalarValue::from(json literal)); string range "
                       "probes are judged bytewise (the documented order-preserving encoding)"]
    run.parallel(history_task, tasks)


def replay(run, path):
    with open(path) as f:
        w = json.load(f)["witness"]
    run.parallel(history_task, [{"name": "replay", "seed": w["seed"], "nprobes": 500}], nproc=1)
