"""Run context: seeds, scratch dirs, parallel workers, violations / known findings, evidence."""
import hashlib
import json
import multiprocessing as mp
import os
import random
import shutil
import sys
import tempfile
import time
import traceback

from .node import Inconclusive, NodeDied, VERIF

KNOWN_PATH = os.path.join(VERIF, "known_findings.json")
EVIDENCE_DIR = os.path.join(VERIF, "evidence")
REPLAY_DIR = os.path.join(VERIF, "replays")

LEVELS = {}  # property id -> level, filled from MANIFEST by check script


def load_known():
    try:
        with open(KNOWN_PATH) as f:
            return json.load(f)
    except FileNotFoundError:
        return {"findings": [], "fixed": []}


def sig_matches(finding_sig, sig):
    """A listed signature matches iff every key it names has the listed value
    (a listed value may be a list of admissible values)."""
    for k, v in finding_sig.items():
        sv = sig.get(k)
        if isinstance(v, list):
            if sv not in v:
                return False
        elif sv != v:
            return False
    return True


class Result:
    """What a worker returns: coverage counters, distinct keys, samples, violations."""

    def __init__(self):
        self.evaluations = 0
        self.distinct = set()
        self.samples = []
        self.counters = {}
        self.sets = {}
        self.violations = []   # dict(rule, sig, detail, witness)
        self.inconclusive = []
        self.notes = []

    def count(self, key, n=1):
        self.counters[key] = self.counters.get(key, 0) + n

    def add_set(self, key, item):
        self.sets.setdefault(key, set()).add(item)

    def nontrivial(self, key):
        self.distinct.add(key)

    def sample(self, s, cap=3):
        if len(self.samples) < cap:
            self.samples.append(s)

    def violation(self, rule, sig, detail, witness=None):
        self.violations.append({"rule": rule, "sig": sig, "detail": detail, "witness": witness})

    def merge(self, other):
        self.evaluations += other.evaluations
        self.distinct |= other.distinct
        for s in other.samples:
            if len(self.samples) < 6:
                self.samples.append(s)
        for k, v in other.counters.items():
            self.counters[k] = self.counters.get(k, 0) + v
        for k, v in other.sets.items():
            self.sets.setdefault(k, set()).update(v)
        self.violations.extend(other.violations)
        self.inconclusive.extend(other.inconclusive)
        self.notes.extend(other.notes)


def _die_with_parent():
    """Pool workers (and through their closed pipes the node processes) must not outlive an aborted check."""
    try:
        import ctypes
        import signal
        ctypes.CDLL("libc.so.6", use_errno=True).prctl(1, signal.SIGKILL)      # PR_SET_PDEATHSIG
    except Exception:
        pass


def _scan_memcheck(task, wdir, res):
    """valgrind prints '==pid== <error>' blocks on the node's stderr and keeps going; dedupe by first repo frame."""
    if "memcheck" not in (os.environ.get("VERIF_VNODE") or ""):
        return
    seen = set()
    for root, _dirs, files in os.walk(wdir):
        for fn_ in files:
            if not fn_.startswith("stderr-"):
                continue
            try:
                text = open(os.path.join(root, fn_), "rb").read().decode("utf-8", "replace")
            except OSError:
                continue
            blocks = text.split("\n==")
            i = 0
            lines = text.splitlines()
            for li, line in enumerate(lines):
                m = line.split("== ", 1)
                if len(m) == 2 and line.startswith("==") and any(k in m[1] for k in ("Invalid read", "Invalid write", "uninitialised", "Invalid free",
                                                                                      "Mismatched free", "overlap", "Process terminating")):
                    frames = [l.split("== ", 1)[1].strip() for l in lines[li + 1:li + 14] if l.startswith("==") and ("at 0x" in l or "by 0x" in l)]
                    repo = next((f for f in frames if "snel_db::" in f), frames[0] if frames else "")
                    key = (m[1].strip()[:40], repo[:120])
                    if key in seen:
                        continue
                    seen.add(key)
                    res.violation("sanitizer_report", {"tool": "memcheck", "kind": m[1].strip().split(" of size")[0][:40]},
                                  f"{task.get('name', '?')}: {m[1].strip()} | {repo[:200]}", {"task": task, "frames": frames[:14]})


def _worker_entry(args):
    fn, task, scratch = args
    res = Result()
    wdir = tempfile.mkdtemp(prefix="w-", dir=scratch)
    try:
        fn(task, wdir, res)
        _scan_memcheck(task, wdir, res)
    except Inconclusive as e:
        res.inconclusive.append(f"{task.get('name', '?')}: {e}")
    except NodeDied as e:
        if "AddressSanitizer" in (e.stderr_tail or "") or "LeakSanitizer" in (e.stderr_tail or ""):
            # sanitizer build (VERIF_VNODE): a report aborts the node; it belongs to the property whose workload produced it
            tail = e.stderr_tail
            first = next((l for l in tail.splitlines() if "ERROR: AddressSanitizer" in l or "ERROR: LeakSanitizer" in l), tail[-200:])
            frame = next((l.strip() for l in tail.splitlines() if "/repo/src/" in l), "")
            res.violation("sanitizer_report", {"tool": "asan", "kind": first.split("AddressSanitizer:")[-1].strip().split(" ")[0] if "AddressSanitizer:" in first else "report"},
                          f"{task.get('name', '?')}: {first.strip()[:200]} | first repo frame: {frame[:160]}", {"task": task, "stderr": tail[-3000:]})
        else:
            res.inconclusive.append(f"{task.get('name', '?')}: unexpected node death {e.code}: {e.stderr_tail[-300:]}")
    except Exception:
        res.inconclusive.append(f"{task.get('name', '?')}: harness error: {traceback.format_exc()[-1500:]}")
    finally:
        if not os.environ.get("VERIF_KEEP"):
            shutil.rmtree(wdir, ignore_errors=True)
    return res


class Run:
    def __init__(self, prop, tier, seed, level, rule):
        self.prop = prop
        self.tier = tier
        self.seed = seed
        self.level = level
        self.rule = rule
        self.t0 = time.time()
        self.result = Result()
        base = os.environ.get("VERIF_SCRATCH") or os.path.join(VERIF, "scratch")
        os.makedirs(base, exist_ok=True)
        self.scratch = tempfile.mkdtemp(prefix=f"{prop}-", dir=base)
        self.assumptions = []
        self.min_distinct = 2

    def rng(self, *stream):
        h = hashlib.sha256(repr((self.prop, self.seed) + stream).encode()).digest()
        return random.Random(int.from_bytes(h[:8], "big"))

    def parallel(self, fn, tasks, nproc=None):
        nproc = nproc or int(os.environ.get("VERIF_PROCS", "16"))
        args = [(fn, t, self.scratch) for t in tasks]
        if nproc <= 1 or len(tasks) <= 1:
            results = [_worker_entry(a) for a in args]
        else:
            ctx = mp.get_context("fork")
            with ctx.Pool(min(nproc, len(tasks)), initializer=_die_with_parent) as pool:
                results = pool.map(_worker_entry, args, chunksize=1)
        for r in results:
            self.result.merge(r)

    def finish(self):
        res = self.result
        known = load_known()
        listed = [f for f in known.get("findings", []) if f.get("property") == self.prop and f.get("status", "open") == "open"]
        unlisted = []
        seen_known = {}
        for v in res.violations:
            hit = None
            for f in listed:
                fr = f.get("rule")
                if (fr == v["rule"] or (isinstance(fr, list) and v["rule"] in fr)) and sig_matches(f.get("signature", {}), v["sig"]):
                    hit = f
                    break
            if hit is None:
                unlisted.append(v)
            else:
                seen_known.setdefault(hit["id"], [hit, 0])[1] += 1
                if os.environ.get("VP_DUMP_KNOWN"):   # diagnostic: what exactly the listed findings absorbed in this run
                    with open(os.environ["VP_DUMP_KNOWN"], "a") as f:
                        f.write(json.dumps({"id": hit["id"], "rule": v["rule"], "sig": v["sig"], "detail": str(v["detail"])[:300]}, default=str) + "\n")
        wall = time.time() - self.t0
        cov = {
            "evaluations": int(res.evaluations),
            "distinct_nontrivial": len(res.distinct),
            "rule": self.rule,
            "samples": res.samples[:6] or ["(none)"],
            "counters": dict(sorted(res.counters.items())),
            "distinct_sets": {k: (sorted(map(str, v))[:60] if len(v) <= 60 else len(v)) for k, v in sorted(res.sets.items())},
            "distinct_set_sizes": {k: len(v) for k, v in sorted(res.sets.items())},
            "known_findings_observed": {k: n for k, (f, n) in seen_known.items()},
            "inconclusive_workers": len(res.inconclusive),
        }
        ev = {
            "property_id": self.prop, "tier": self.tier, "seed": int(self.seed), "level": self.level,
            "coverage": cov, "assumptions": self.assumptions, "wall_s": round(wall, 2),
            "violations": len(unlisted),
        }
        os.makedirs(EVIDENCE_DIR, exist_ok=True)
        with open(os.path.join(EVIDENCE_DIR, f"{self.prop}.json"), "w") as f:
            json.dump(ev, f, indent=1, default=str)
        for k, (f, n) in sorted(seen_known.items()):
            print(f"KNOWN-FINDING: property={self.prop} {f['what']} (id={k}, observed {n}x)")
        for f in listed:
            if f["id"] not in seen_known:
                print(f"KNOWN-FINDING: property={self.prop} {f['what']} (id={f['id']}, listed, not triggered by this run's workload)")
        for n in res.notes[:20]:
            print(f"note: {n}")
        code = 0
        if unlisted:
            os.makedirs(REPLAY_DIR, exist_ok=True)
            # group by (rule, sig) and write one replay per group
            groups = {}
            for v in unlisted:
                key = json.dumps([v["rule"], v["sig"]], sort_keys=True, default=str)
                groups.setdefault(key, []).append(v)
            for i, (key, vs) in enumerate(sorted(groups.items())):
                path = os.path.join(REPLAY_DIR, f"tmp-{self.prop}-{self.tier}-s{self.seed}-{i}.json")
                with open(path, "w") as f:
                    json.dump({"property": self.prop, "rule": vs[0]["rule"], "sig": vs[0]["sig"],
                               "count": len(vs), "detail": vs[0]["detail"], "witness": vs[0]["witness"]},
                              f, indent=1, default=str)
                print(f"VIOLATION property={self.prop} replay={path}")
                print(f"  rule={vs[0]['rule']} sig={json.dumps(vs[0]['sig'], default=str)} x{len(vs)}: {str(vs[0]['detail'])[:400]}")
            code = 1
        elif res.inconclusive:
            frac = len(res.inconclusive)
            for m in res.inconclusive[:5]:
                print(f"INCONCLUSIVE: {m[:600]}")
            # a few watchdog hits among many workers do not make the whole run inconclusive
            if frac > max(1, int(0.1 * max(1, res.counters.get('tasks', 0)))):
                code = 2
        if code == 0 and len(res.distinct) < self.min_distinct:
            print(f"INCONCLUSIVE: only {len(res.distinct)} distinct non-trivial cases observed (< {self.min_distinct})")
            code = 2
        print(f"{self.prop} {self.tier} seed={self.seed}: evaluations={res.evaluations} distinct={len(res.distinct)} "
              f"violations={len(unlisted)} known={sum(n for _, n in seen_known.values())} wall={wall:.1f}s exit={code}")
        if not os.environ.get("VERIF_KEEP"):
            shutil.rmtree(self.scratch, ignore_errors=True)
        return code


def run_under_memcheck(run, fn, tasks, label):
    """Sanitizer layer: replays `tasks` with every node process under valgrind memcheck (san/vnode_memcheck.sh). Reports that valgrind
    prints (invalid read / write, use of uninitialised values, bad frees) become `sanitizer_report` violations of the property whose
    workload produced them (_worker_entry scans the nodes' stderr); the task's own oracle runs as usual."""
    import shutil as _sh
    if not _sh.which("valgrind"):
        run.result.notes.append(f"sanitizer layer ({label}): valgrind not available in this image - not run")
        run.result.count("memcheck_layer_not_run")
        return
    old = os.environ.get("VERIF_VNODE")
    os.environ["VERIF_VNODE"] = os.path.join(VERIF, "san", "vnode_memcheck.sh")
    os.environ["VERIF_NODE_START_TIMEOUT"] = "240"
    os.environ["VERIF_SLOWDOWN"] = "25"
    try:
        run.parallel(fn, tasks)
        run.result.count("memcheck_histories", len(tasks))
    finally:
        os.environ.pop("VERIF_SLOWDOWN", None)
        if old is None:
            os.environ.pop("VERIF_VNODE", None)
        else:
            os.environ["VERIF_VNODE"] = old
