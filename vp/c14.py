"""C14 - SHOW of a remembered query equals the live query, each event once."""
import json
import random

from . import gen
from .hist import Lifetimes, must_ok

RULE = ("history = selection query q (plain / WHERE int leaf / FOR ctx / SINCE / RETURN) remembered as m x scripted-clock STOREs arriving before "
        "REMEMBER, between REMEMBER and the first SHOW and between SHOWs - on the same second as the high-water mark, one and several seconds "
        "later, on different shards within one millisecond - with FLUSH / auto-flush / compaction / restart placed between any two of these, "
        "shards 1-3, zone sizes 1-4; at every quiescent point SHOW m (3 times) and QUERY q are issued back to back and compared as multisets "
        "of k; REMEMBER under an existing name must fail; distinct_nontrivial counts distinct (query shape, arrival class of the newest "
        "events, layout operation since the last SHOW, show index) comparisons with >=1 row")


def history_task(task, wdir, res):
    rng = random.Random(task["seed"])
    cfg = dict(shard_count=rng.choice([1, 2, 3]), event_per_zone=rng.choice([1, 2, 4]), fill_factor=rng.choice([1, 2, 3, 50, 50]),
               segments_per_merge=rng.choice([2, 3]))
    ctxs = [f"c{i}" for i in range(4)]
    lt = Lifetimes(wdir, **cfg)
    node = lt.start()
    res.count("tasks"); res.count("histories")
    shapes = {"plain": "QUERY ev", "where": "QUERY ev WHERE k >= 3", "for": f"QUERY ev FOR {ctxs[0]}", "return": "QUERY ev RETURN [k]",
              "where_for": f"QUERY ev FOR {ctxs[1]} WHERE k < 1000", "since": 'QUERY ev SINCE "1700000001"'}
    witness = {"seed": task["seed"], "config": cfg, "ops": [], "steps": task["steps"]}
    try:
        must_ok(node.cmd('DEFINE ev FIELDS { k: "int", g: "string" }'), "define")
        now_s = 1700000000
        node.meta(f"clock mono {now_s * 1000} 1")
        k = 0
        remembered = {}
        quiescent_remember = rng.random() < 0.75    # REMEMBER while a flush is in flight inherits the C03 in-flight read finding
        witness["quiescent_remember"] = quiescent_remember
        last_layout_op = "none"
        arrival = "initial"

        def op(text):
            witness["ops"].append(text)

        clock = {"ms": now_s * 1000}     # python-side lower bound of the scripted clock: it never goes backwards

        def set_clock(ms, step):
            # the engine reads the clock an unknown number of times (SHOW, REMEMBER, flushes): the node keeps the scripted
            # clock monotone itself and reports the value in force
            ms = max(ms, clock["ms"] + 1)
            ms = node.meta(f"clock mono {ms} {step}")["now"]
            clock["ms"] = ms
            return ms

        def store_some(n, when):
            nonlocal k, now_s, arrival
            if clock["ms"] // 1000 > now_s:
                now_s = clock["ms"] // 1000
            if when == "same_second":
                set_clock(clock["ms"], 1)
            elif when == "next_second":
                now_s += 1
                set_clock(now_s * 1000, 1)
            elif when == "later":
                now_s += rng.choice([2, 60, 3700])
                set_clock(now_s * 1000, 1)
            elif when == "same_millisecond":
                set_clock(clock["ms"] + 3, 0)
            arrival = when
            for _ in range(n):
                k += 1
                c = rng.choice(ctxs)
                op(f"store k={k} ctx={c} at {when}")
                must_ok(node.cmd(gen.store_cmd("ev", c, {"k": k, "g": rng.choice("ab")})), "store")
                if when != "same_millisecond":
                    clock["ms"] += 4          # every STORE reads the clock at most 3 times (step 1)
                if when == "same_millisecond" and _ >= 2:
                    break
            if when == "same_millisecond":
                set_clock(clock["ms"] + 2, 1)
            node.sync()

        def compare(tag):
            node.syncflush()
            # attribution: does the store itself hold rows twice (WAL files that were never pruned are replayed next to the
            # segment that already holds their events - C01's double-count finding)? COUNT sees both copies, the selection dedups.
            rc, ra = node.cmd("QUERY ev COUNT"), node.cmd("QUERY ev RETURN [k]")
            double = None
            try:
                double = int(rc.rows[0][0]) > len(ra.rows)
            except Exception:
                pass
            for name, q in remembered.items():
                shape = name.split("_", 1)[1]
                rq = node.cmd(q)
                live = sorted(r.get("k") for r in rq.dicts()) if rq.rows is not None else None
                prev = None
                for i in range(3):
                    rs = node.cmd(f"SHOW {name}")
                    res.evaluations += 1
                    sig = {"shape": shape, "arrival": arrival, "layout_op": last_layout_op, "show_index": min(i, 1),
                           "quiescent_remember": quiescent_remember}
                    w = dict(witness, show=name, query=q, when=tag)
                    if rs.kind == "panic":
                        res.violation("show_panicked", sig, rs.message, w)
                        break
                    if rs.rows is None:
                        res.violation("show_failed", sig, f"SHOW {name}: {rs!r} {rs.raw[:200]!r}", w)
                        break
                    shown = sorted(r.get("k") for r in rs.dicts())
                    if live:
                        res.nontrivial((shape, arrival, last_layout_op, min(i, 1)))
                    if live is not None and shown != live:
                        missing = sorted(set(live) - set(shown))
                        extra = sorted(set(shown) - set(live))
                        dup = sorted({x for x in shown if shown.count(x) > 1})
                        kind = "missing" if missing else ("duplicated" if dup else "extra")
                        res.violation("show_differs_from_query", dict(sig, kind=kind, store_double_counts=double),
                                      f"{tag}: SHOW {name} #{i}: missing={missing[:8]} extra={extra[:8]} dup={dup[:8]} (live {len(live)} rows; q = {q})", w)
                    if prev is not None and shown != prev:
                        res.violation("consecutive_shows_differ", sig, f"{tag}: SHOW {name} #{i - 1} -> #{i}: {prev[:12]} vs {shown[:12]}", w)
                    prev = shown
                # requery in case SHOW (which appends to the store) raced nothing: the live answer must be unchanged
                rq2 = node.cmd(q)
                live2 = sorted(r.get("k") for r in rq2.dicts()) if rq2.rows is not None else None
                if live2 != live:
                    res.violation("query_changed_by_show", {"shape": shape}, f"{q}: {live} -> {live2}", witness)

        store_some(rng.randint(1, 4), "same_second")
        for step in range(task["steps"]):
            r = rng.random()
            if r < 0.22 and len(remembered) < len(shapes):
                free = [s for s in shapes if not any(n.split("_", 1)[1] == s for n in remembered)]
                if not free:
                    continue
                shape = rng.choice(free)
                name = f"m{len(remembered)}_{shape}"
                op(f"remember {name}")
                if quiescent_remember:
                    node.syncflush()
                rep = node.cmd(f"REMEMBER {shapes[shape]} AS {name}")
                if not rep.ok:
                    res.violation("remember_failed", {"shape": shape}, f"{rep!r}", witness)
                else:
                    remembered[name] = shapes[shape]
                    rep2 = node.cmd(f"REMEMBER {shapes[shape]} AS {name}")
                    res.evaluations += 1
                    if rep2.ok:
                        res.violation("remember_existing_name_accepted", {"shape": shape}, name, witness)
                last_layout_op = "none"
            elif r < 0.55:
                store_some(rng.randint(1, 4), rng.choice(["same_second", "same_second", "next_second", "later", "same_millisecond"]))
            elif r < 0.62:
                # new seconds land in the same segment as rows SHOW has already delivered from memory
                store_some(rng.randint(1, 3), rng.choice(["next_second", "later"]))
                op("flush"); must_ok(node.cmd("FLUSH", timeout=60), "flush"); last_layout_op = "store+flush"
            elif r < 0.70:
                op("flush"); must_ok(node.cmd("FLUSH", timeout=60), "flush"); last_layout_op = "flush"
            elif r < 0.79:
                op("compact"); node.syncflush(); lt.compact_all(1); last_layout_op = "compact"
            elif r < 0.86:
                op("restart"); set_clock(clock["ms"], 1); node = lt.restart_clean(); set_clock(clock["ms"] + 200, 1); last_layout_op = "restart"
            elif r < 0.91 and remembered:
                # a client that goes away while SHOW streams: the response writer breaks after n bytes; what SHOW had stored or
                # recorded by then must not make a later SHOW differ from the live query
                name = rng.choice(sorted(remembered))
                n = rng.choice([0, 64, 300, 1000, 4000])
                op(f"aborted show {name} after {n} bytes")
                node.syncflush()
                node.meta(f"failwrite {n}")
                node.cmd(f"SHOW {name}")
                last_layout_op = "aborted_show"
            else:
                op("show"); compare(f"step {step}")
                last_layout_op = "none"; arrival = "none_since_show"
        compare("final")
        res.sample({"config": cfg, "ops": witness["ops"][:25], "remembered": remembered})
    finally:
        lt.stop()


def run(run):
    quick = run.tier == "quick"
    n = 64 if quick else 800
    tasks = [{"name": f"h{i}", "seed": run.rng("h", i).getrandbits(40), "steps": 20 if quick else 30} for i in range(n)]
    run.min_distinct = 25
    run.assumptions = ["scripted clock (hook) drives both the STORE timestamp and the event-id generator; it never goes backwards here "
                       "(events older than the high-water mark are outside the property's quantifier)"]
    run.parallel(history_task, tasks)


def replay(run, path):
    with open(path) as f:
        w = json.load(f)["witness"]
    run.parallel(history_task, [{"name": "replay", "seed": w["seed"], "steps": w.get("steps", 20)}], nproc=1)
