"""C20 - every response encoding carries the same rows and values.

(1) direct: generated result sets (schema x batches of ScalarValue cells) go through the real QueryResponseWriter with the JSON, unix
    (line) and Arrow renderers (vunit c20); the Arrow stream is decoded by arrow-ipc's StreamReader, the text frames by python's json.
(2) end to end: the same command is dispatched three times over one engine state, once per renderer (vnode @render), including
    aggregates, REPLAY, SHOW (its own response writer) and failing commands (status codes)."""
import base64
import json
import math
import os
import random
import subprocess

from . import gen
from .hist import Lifetimes, must_ok
from .node import write_config

VUNIT = os.path.join(os.path.dirname(os.path.dirname(os.path.abspath(__file__))), "target", "verif", "vunit")

RULE = ("(1) result = 1-6 columns over the logical types String / Integer / Number / Float / Boolean / Timestamp / JSON / Unknown (with or "
        "without an event_id column, so that the writer's id dedup acts) x 0-4 batches of 0-8 rows; cells: nulls, ints near +-2^63, integral / "
        "tiny / huge / non-finite floats, numeric-looking, empty and non-ASCII strings, booleans, and (mixed mode) cells whose runtime type "
        "differs from the declared one; duplicate event ids at batch edges and in the interior; LIMIT/OFFSET none / 0 / inside / beyond; one "
        "process per streaming_batch_size in {default, 0, 1, 2, 3}. (2) typed histories queried (selection, RETURN, aggregates, REPLAY, SHOW, "
        "failing commands) once per renderer in memory / flushed / compacted / restarted layouts. Oracle: same column names and types, same "
        "number of rows, announced row_count = rows emitted, cells equal (null = null, numbers numerically, strings byte-identical, Arrow "
        "timestamps as instants), same status code. distinct_nontrivial counts distinct (declared type, runtime class, dedup/limit shape, batch "
        "size | command family, tier) cells with >= 1 row")

TYPES = ["String", "Integer", "Number", "Float", "Boolean", "Timestamp", "JSON", "Unknown"]
INTS = [0, 1, -1, 42, 2 ** 31, -2 ** 31 - 1, 2 ** 53, 2 ** 53 + 1, 2 ** 63 - 1, -2 ** 63, 1700000000]
FLOATS = [0.0, -0.0, 1.5, -2.75, 3.0, 1e300, 5e-324, 0.1, 1e15, 123456789.125, "nan", "inf", "-inf"]
STRS = ["", "a", "42", "-7", "1.5", "true", "null", "NaN", "日本語🚀", "é", "with \"quote\"", "back\\slash", "line\nbreak", " padded ", "x" * 200, "{\"a\":1}"]


def well_typed(rng, lt):
    if rng.random() < 0.15:
        return {"t": "n"}
    if lt in ("Integer", "Number"):
        return {"t": "i", "v": rng.choice(INTS)}
    if lt == "Float":
        return {"t": "f", "v": rng.choice(FLOATS)}
    if lt == "Boolean":
        return {"t": "b", "v": rng.random() < 0.5}
    if lt == "Timestamp":
        return {"t": rng.choice(["ts", "i"]), "v": rng.choice([0, 1, 1700000000, 1700000000123, -5, 253402300799])}
    return {"t": "s", "v": rng.choice(STRS)}


def any_cell(rng):
    r = rng.random()
    if r < 0.15:
        return {"t": "n"}
    if r < 0.35:
        return {"t": "i", "v": rng.choice(INTS)}
    if r < 0.5:
        return {"t": "f", "v": rng.choice(FLOATS)}
    if r < 0.7:
        return {"t": "s", "v": rng.choice(STRS)}
    if r < 0.8:
        return {"t": "b", "v": rng.random() < 0.5}
    if r < 0.9:
        return {"t": "ts", "v": rng.choice([0, 1700000000, -5])}
    return {"t": "bin", "v": [rng.randint(0, 255) for _ in range(rng.randint(0, 4))]}


def gen_case(rng):
    mode = rng.choice(["well_typed", "well_typed", "well_typed", "mixed"])
    ncols = rng.randint(1, 6)
    cols = []
    with_id = rng.random() < 0.6
    if with_id:
        cols.append({"name": "event_id", "logical_type": "Integer"})
    for i in range(ncols):
        cols.append({"name": rng.choice(["context_id", "event_type", "timestamp", f"f{i}", f"名{i}", f"c {i}"]) + ("" if i == 0 else f"_{i}"),
                     "logical_type": rng.choice(TYPES)})
    rng.shuffle(cols)
    nb = rng.choice([0, 1, 1, 2, 3, 4])
    ids = []
    batches = []
    next_id = 1
    dup_shape = rng.choice(["none", "none", "edge", "interior", "whole_batch", "many"]) if with_id else "none"
    for b in range(nb):
        rows = []
        n = rng.choice([0, 1, 2, 3, 5, 8])
        for r in range(n):
            row = []
            for c in cols:
                if c["name"] == "event_id":
                    dup = False
                    if ids and dup_shape != "none":
                        interior = 0 < r < n - 1
                        if dup_shape == "edge":
                            dup = (r in (0, n - 1)) and rng.random() < 0.5
                        elif dup_shape == "interior":
                            dup = interior and rng.random() < 0.6
                        elif dup_shape == "whole_batch":
                            dup = b > 0
                        else:
                            dup = rng.random() < 0.4
                    if dup:
                        v = rng.choice(ids)
                    else:
                        v = next_id
                        next_id += 1
                    ids.append(v)
                    row.append({"t": "i", "v": v})
                elif mode == "mixed" and rng.random() < 0.35:
                    row.append(any_cell(rng))
                else:
                    row.append(well_typed(rng, c["logical_type"]))
            rows.append(row)
        batches.append(rows)
    total = sum(len(b) for b in batches)
    lim = rng.choice([None, None, None, 0, 1, max(1, total // 2), total, total + 5])
    off = rng.choice([None, None, None, 0, 1, max(1, total // 2), total + 2])
    return {"columns": cols, "batches": batches, "limit": lim, "offset": off, "mode": mode, "dup_shape": dup_shape}


def parse_frames(raw):
    """(cols, types, rows, announced, error) from the JSON-lines streaming frames."""
    try:
        text = raw.decode("utf-8")
    except UnicodeDecodeError as e:
        return None, None, None, None, f"not utf-8: {e}"
    cols, types, rows, announced = None, None, [], None
    for line in text.split("\n"):
        if not line.strip():
            continue
        try:
            v = json.loads(line)
        except ValueError as e:
            return cols, types, rows, announced, f"frame is not JSON: {e}: {line[:120]!r}"
        t = v.get("type") if isinstance(v, dict) else None
        if t == "schema":
            cols = [c["name"] for c in v["columns"]]
            types = [c.get("logical_type") for c in v["columns"]]
        elif t == "batch":
            rows.extend(v["rows"])
        elif t == "row":
            rows.append([v["values"].get(c) for c in (cols or [])])
        elif t == "end":
            announced = v.get("row_count")
        else:
            return cols, types, rows, announced, f"unexpected frame {str(v)[:160]}"
    return cols, types, rows, announced, None


def runtime_class(cell):
    return {"n": "null", "i": "int", "f": "float", "s": "string", "b": "bool", "ts": "timestamp", "bin": "binary"}[cell["t"]]


def cell_equal(j, a, declared):
    """JSON value j vs decoded Arrow cell a. Returns (ok, family)."""
    t = a["t"]
    if t == "n":
        return (j is None), "null_vs_value"
    if j is None:
        return False, ("non_finite_float" if t == "f" and isinstance(a["v"], str) else "value_vs_null")
    if t == "i":
        return (isinstance(j, (int, float)) and not isinstance(j, bool) and j == a["v"]), "integer"
    if t == "f":
        if isinstance(a["v"], str):
            return False, "non_finite_float"
        return (isinstance(j, (int, float)) and not isinstance(j, bool) and float(j) == float(a["v"])), "float"
    if t == "b":
        return (isinstance(j, bool) and j == a["v"]), "boolean"
    if t == "s":
        if isinstance(j, str):
            return j == a["v"], "string"
        if isinstance(j, (dict, list)) or (isinstance(j, int) and not isinstance(j, bool) and j > 2 ** 63 - 1):
            return False, "string_reparsed_by_json_renderer"     # ScalarValue::to_json re-parses JSON-looking text (C07's finding)
        return False, "stringified_in_arrow"
    if t == "ts_ms":
        # the engine's time columns hold epoch seconds (query.md); an Arrow timestamp is an instant with a unit
        if isinstance(j, (int, float)) and not isinstance(j, bool):
            return (j * 1000 == a["v"]), "timestamp_unit"
        return False, "timestamp"
    return False, "other_arrow_type"


def compare_case(case, out, res, where, sig_extra, witness):
    """case: dict with mode/dup_shape (direct) or None; out: {"json": bytes, "unix": bytes, "arrow": decoded dict}"""
    jc, jt, jr, jn, jerr = parse_frames(out["json"])
    uc, ut, ur, un, uerr = parse_frames(out["unix"])
    a = out["arrow"]
    sig = dict(sig_extra)
    if jerr or uerr or a.get("error") or a.get("panic"):
        res.violation("stream_not_decodable", dict(sig, which="json" if jerr else "unix" if uerr else "arrow"),
                      f"{where}: json: {jerr}; unix: {uerr}; arrow: {a.get('error') or a.get('panic')}", witness)
        return
    if jc != uc or jc != a["cols"]:
        res.violation("column_names_differ", sig, f"{where}: json {jc} unix {uc} arrow {a['cols']}", witness)
        return
    if jt != ut:
        res.violation("column_types_differ", sig, f"{where}: json {jt} unix {ut}", witness)
    if jn != len(jr) or un != len(ur):
        res.violation("announced_row_count_differs", sig, f"{where}: json announced {jn} emitted {len(jr)}; unix announced {un} emitted {len(ur)}", witness)
    if case is not None and jr != ur:
        res.violation("json_and_text_rows_differ", sig, f"{where}: json {str(jr)[:200]} unix {str(ur)[:200]}", witness)
    ar = a["rows"]
    if case is None and jc and len(ar) == len(jr) == len(ur):
        # three separate executions: the row order of a multi-shard answer is not part of the property
        def keyj(row):
            return json.dumps(row, sort_keys=True, default=str)
        if "event_id" in jc:
            ix = jc.index("event_id")
            jr = sorted(jr, key=lambda r: (str(r[ix]), keyj(r)))
            ur = sorted(ur, key=lambda r: (str(r[ix]), keyj(r)))
            ar = sorted(ar, key=lambda r: (str(r[ix].get("v")), json.dumps(r, sort_keys=True)))
        else:
            order = sorted(range(len(jr)), key=lambda i: keyj(jr[i]))
            jr = [jr[i] for i in order]
            ur = sorted(ur, key=keyj)
            ar = sorted(ar, key=lambda r: json.dumps([c.get("v") for c in r], sort_keys=True, default=str))
            jr_sorted_like_arrow = sorted(jr, key=lambda r: json.dumps([("" if v is None else v) for v in r], sort_keys=True, default=str))
        if jr != ur:
            res.violation("json_and_text_rows_differ", sig, f"{where}: json {str(jr)[:200]} unix {str(ur)[:200]}", witness)
    if len(ar) != len(jr):
        res.violation("row_count_differs", dict(sig, arrow_vs_json="more" if len(ar) > len(jr) else "fewer"),
                      f"{where}: json has {len(jr)} rows, arrow has {len(ar)}", witness)
        return
    lim = case.get("limit") if case else None
    if lim is not None and len(jr) > lim:
        res.violation("limit_exceeded", sig, f"{where}: {len(jr)} rows for LIMIT {lim}", witness)
    seen = set()
    for ri, (rowj, rowa) in enumerate(zip(jr, ar)):
        for ci, (j, cell) in enumerate(zip(rowj, rowa)):
            declared = (jt or [None] * len(rowj))[ci]
            ok, fam = cell_equal(j, cell, declared)
            if ok:
                continue
            key = (declared, fam)
            if key in seen:
                continue
            seen.add(key)
            extra = {}
            if case is not None:
                ok_t = {"Integer": ("i", "n"), "Number": ("i", "n"), "Float": ("f", "n"), "Boolean": ("b", "n"),
                        "Timestamp": ("ts", "i", "n")}.get(declared, ("s", "n"))
                src_col = next(i for i, c in enumerate(case["columns"]) if c["name"] == jc[ci])
                extra["column_has_foreign_cells"] = any(row[src_col]["t"] not in ok_t for b in case["batches"] for row in b)
            res.violation("cell_differs", dict(sig, declared=declared, family=fam, **extra),
                          f"{where}: row {ri} column {jc[ci]!r} ({declared}): json {j!r} vs arrow {cell}", witness)


def direct_task(task, wdir, res):
    rng = random.Random(task["seed"])
    bs = task["batch_size"]
    cfg_path, _ = write_config(wdir, streaming_batch_size=bs)
    cases = [gen_case(rng) for _ in range(task["cases"])]
    af = os.path.join(wdir, "c20.json")
    with open(af, "w") as f:
        json.dump({"cases": [{k: c[k] for k in ("columns", "batches", "limit", "offset")} for c in cases]}, f)
    res.count("tasks")
    pr = subprocess.run([VUNIT, "c20", af], env=dict(os.environ, SNELDB_CONFIG=cfg_path), capture_output=True, timeout=900)
    if pr.returncode != 0:
        res.inconclusive.append(f"vunit c20 died: {pr.returncode} {pr.stderr.decode('utf-8', 'replace')[-400:]}")
        return
    outs = json.loads(pr.stdout)["cases"]
    for ci, (c, o) in enumerate(zip(cases, outs)):
        res.evaluations += 1
        witness = {"seed": task["seed"], "case_index": ci, "batch_size": bs, "case": {k: c[k] for k in ("columns", "limit", "offset", "mode", "dup_shape")},
                   "batches": c["batches"]}
        sig = {"monitor": "direct", "mode": c["mode"], "dup_shape": c["dup_shape"], "batch_size": "default" if bs is None else bs}
        bad = [k for k in ("json", "unix", "arrow") if o[k].get("panic") or o[k].get("error")]
        if bad:
            res.violation("writer_failed", dict(sig, which=bad[0], all_three=len(bad) == 3), f"case {ci}: {[(k, o[k]) for k in bad][:2]}", witness)
            continue
        total = sum(len(b) for b in c["batches"])
        if total:
            limc = "none" if c["limit"] is None else ("zero" if c["limit"] == 0 else "inside" if c["limit"] < total else "beyond")
            for col in c["columns"]:
                classes = {runtime_class(row[i]) for b in c["batches"] for row in b for i, cc in enumerate(c["columns"]) if cc is col}
                for rc in classes:
                    res.nontrivial((col["logical_type"], rc, c["dup_shape"], limc, sig["batch_size"]))
        compare_case(c, {"json": base64.b64decode(o["json"]["b64"]), "unix": base64.b64decode(o["unix"]["b64"]), "arrow": o["arrow"]},
                     res, f"case {ci}", sig, witness)
    res.sample({"batch_size": bs, "case": {k: cases[0][k] for k in ("columns", "limit", "offset", "mode", "dup_shape")}})


# ------------------------------------------------------------------------------------------------- end to end
def decode_arrow_many(wdir, cfg_path, blobs):
    af = os.path.join(wdir, f"dec-{random.getrandbits(32)}.json")
    with open(af, "w") as f:
        json.dump({"cases": [], "decode_arrow": [base64.b64encode(b).decode() for b in blobs]}, f)
    pr = subprocess.run([VUNIT, "c20", af], env=dict(os.environ, SNELDB_CONFIG=cfg_path), capture_output=True, timeout=300)
    os.unlink(af)
    if pr.returncode != 0:
        return None
    return json.loads(pr.stdout)["decoded"]


def history_task(task, wdir, res):
    rng = random.Random(task["seed"])
    kinds = ["int", "float", "string", "bool", "enum", "datetime", "u64", "string", "float"]
    schema = gen.gen_schema(rng, "ev", kinds=kinds, nfields=rng.randint(3, 7))
    ctxs = [f"c{j}" for j in range(rng.randint(2, 4))]
    events = gen.gen_events(rng, schema, rng.randint(8, 30), ctxs)
    cfg = gen.gen_config(rng, shards=(1, 2, 3), zone=(2, 3, 5), fill=(2, 3, 50))
    cfg["streaming_batch_size"] = rng.choice([None, 0, 1, 2, 1000])
    lt = Lifetimes(wdir, **cfg)
    node = lt.start()
    res.count("tasks"); res.count("histories")
    cfg_path = os.path.join(wdir, "config")
    num = [f.name for f in schema.fields if f.kind in ("int", "float", "u64") and not f.optional]
    anyf = [f.name for f in schema.fields]
    cmds = [("select", "QUERY ev"), ("select_return", f"QUERY ev RETURN [{', '.join(rng.sample(anyf, min(3, len(anyf))))}]"),
            ("select_where", "QUERY ev WHERE k >= 3"), ("select_empty", "QUERY ev WHERE k < -5"),
            ("agg_count", "QUERY ev COUNT"), ("agg_by", f"QUERY ev COUNT BY {rng.choice(anyf)}"),
            ("replay", f"REPLAY ev FOR {ctxs[0]}"), ("replay_all", f"REPLAY FOR {ctxs[0]}"),
            ("show", "SHOW m1"),
            ("error_unknown_type", "QUERY nosuchtype"), ("error_parse", "QUERY ev WHERE"), ("error_show", "SHOW nosuchview"),
            ("error_store", 'STORE nosuchtype FOR c1 PAYLOAD {"k":1}'), ("ping", "PING")]
    if num:
        f1 = rng.choice(num)
        cmds += [("agg_metrics", f"QUERY ev COUNT, TOTAL {f1}, AVG {f1}, MIN {f1}, MAX {f1}"), ("agg_per", "QUERY ev COUNT PER DAY")]
    witness = {"seed": task["seed"], "config": cfg, "define": schema.define_cmd(), "stores": [gen.store_cmd("ev", e["ctx"], e["payload"]) for e in events]}

    def observe(tier):
        blobs, metas = [], []
        for fam, cmd in cmds:
            outs = {}
            for rnd in ("json", "unix", "arrow"):
                node.meta(f"render {rnd}")
                rep = node.cmd(cmd, timeout=60)
                outs[rnd] = rep
            node.meta("render json")
            res.evaluations += 1
            sig = {"monitor": "e2e", "command": fam, "tier": tier}
            w = dict(witness, command=cmd, tier=tier)
            if any(o.kind == "panic" for o in outs.values()):
                res.violation("render_panicked", sig, f"{cmd} @ {tier}: {[(k, o.message) for k, o in outs.items() if o.kind == 'panic']}", w)
                continue
            metas.append((fam, cmd, sig, w, outs))
            blobs.append(outs["arrow"].raw)
        decoded = decode_arrow_many(wdir, cfg_path, blobs)
        if decoded is None:
            res.inconclusive.append("arrow decoding helper failed")
            return
        for (fam, cmd, sig, w, outs), arrow in zip(metas, decoded):
            jraw, uraw = outs["json"].raw, outs["unix"].raw
            streaming = b'"type":"schema"' in jraw
            res.nontrivial(("e2e", fam, tier, "stream" if streaming else "message"))
            if streaming:
                compare_case(None, {"json": jraw, "unix": uraw, "arrow": arrow}, res, f"{cmd} @ {tier}", sig, w)
                continue
            # non-streaming replies (errors, OK messages): status codes must agree
            def status(raw):
                try:
                    v = json.loads(raw.decode("utf-8").strip().split("\n")[0])
                    return v.get("status") if isinstance(v, dict) else None
                except Exception:
                    import re
                    m = re.match(rb"\s*(\d{3})\b", raw)
                    return int(m.group(1)) if m else None
            sj, su = status(jraw), status(uraw)
            sa = None
            if "error" not in arrow and arrow.get("cols"):
                # an error rendered as an Arrow table: look for a status column
                if "status" in arrow["cols"] and arrow["rows"]:
                    sa = arrow["rows"][0][arrow["cols"].index("status")].get("v")
            else:
                sa = status(outs["arrow"].raw)
            if not (sj == su == sa):
                res.violation("status_codes_differ", dict(sig, statuses=f"{sj}/{su}/{sa}"),
                              f"{cmd} @ {tier}: json {sj} unix {su} arrow {sa}; raw: {jraw[:80]!r} | {uraw[:80]!r} | {outs['arrow'].raw[:80]!r}", w)

    try:
        must_ok(node.cmd(schema.define_cmd()), "define")
        for c in witness["stores"]:
            must_ok(node.cmd(c), "store")
        node.syncflush()
        must_ok(node.cmd("REMEMBER QUERY ev AS m1"), "remember")
        observe("mem_or_mixed")
        must_ok(node.cmd("FLUSH", timeout=60), "flush"); node.syncflush()
        observe("flush")
        if task.get("deep"):
            lt.compact_all(1); observe("c1")
            node = lt.restart_clean(); observe("restart")
        res.sample({"config": gen.cfg_desc(cfg), "define": witness["define"], "commands": [c for _, c in cmds[:6]]})
    finally:
        lt.stop()


def _dispatch(task, wdir, res):
    (direct_task if task["kind"] == "direct" else history_task)(task, wdir, res)


def run(run):
    quick = run.tier == "quick"
    tasks = []
    sizes = [None, 0, 1, 2, 3]
    for i in range(20 if quick else 200):
        tasks.append({"name": f"d{i}", "kind": "direct", "seed": run.rng("d", i).getrandbits(44), "cases": 150 if quick else 500, "batch_size": sizes[i % len(sizes)]})
    for i in range(16 if quick else 300):
        tasks.append({"name": f"h{i}", "kind": "history", "seed": run.rng("h", i).getrandbits(44), "deep": i % 2 == 0})
    run.min_distinct = 60
    run.assumptions = ["time columns hold epoch seconds (docs); an Arrow timestamp cell is compared as the instant its unit says",
                       "the JSON and text frames are parsed with python's json (exact integers), the Arrow stream with arrow-ipc's StreamReader"]
    run.parallel(_dispatch, tasks)


def replay(run, path):
    with open(path) as f:
        w = json.load(f)["witness"]
    if "case_index" in w:
        run.parallel(_dispatch, [{"name": "replay", "kind": "direct", "seed": w["seed"], "cases": w["case_index"] + 1, "batch_size": w["batch_size"]}], nproc=1)
    else:
        run.parallel(_dispatch, [{"name": "replay", "kind": "history", "seed": w["seed"], "deep": True}], nproc=1)
