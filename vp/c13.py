"""C13 - no data command runs without authentication and the required permission.

The real TCP listener of a vnode (bypass_auth = false) is the observation boundary; python clients compute HMAC-SHA256 themselves.
Safety direction only: executed => authenticated and authorised. The permission model is the one of docs/src/commands/user_management.md;
states the docs leave open (a permission entry with both flags revoked under a role) are not asserted."""
import hashlib
import hmac
import json
import random
import re
import socket
import time

from .hist import Lifetimes, must_ok
from .node import Inconclusive

RULE = ("population = 3 event types with stored events x 5-8 users (ids: plain, hyphen/underscore, 'bypass', 'no-auth', 'admin', unicode alphanumerics, "
        "64 chars) x role sets over {admin, read-only, viewer, editor, write-only, unknown} x 6-14 GRANT / REVOKE / REVOKE KEY steps; after every step each "
        "user issues data commands (QUERY, aggregate, REPLAY typed and wildcard, sequence query, REMEMBER + SHOW, STORE, DEFINE, CREATE USER, GRANT, "
        "LIST USERS, SHOW PERMISSIONS, FLUSH) under the three auth forms (inline user:sig:cmd, AUTH + sig:cmd, TOKEN) with valid, wrong-key, truncated, "
        "other-user, other-command, expired-token and revoked-key credentials, and with payloads / contexts carrying ' TOKEN ', ':' and valid "
        "signatures of other users; oracle: a reply with rows of a type the user may not read, an accepted STORE without write permission, a successful "
        "admin command by a non-admin, or anything but an authentication failure under invalid credentials is a violation; distinct_nontrivial counts "
        "distinct (command kind, auth form, credential, expected decision) cells")

TYPES = ["ta", "tb", "tc"]
ROLE_READ = {"read-only", "viewer", "editor"}
ROLE_WRITE = {"editor", "write-only"}


def sig(key, msg):
    return hmac.new(key.encode("utf-8"), msg.encode("utf-8"), hashlib.sha256).hexdigest()


class Client:
    def __init__(self, port):
        self.port = port
        self.sock = socket.create_connection(("127.0.0.1", port), timeout=10)

    def send(self, line, wait=2.0):
        self.sock.sendall(line.encode("utf-8") + b"\n")
        self.sock.settimeout(wait)
        buf = b""
        try:
            buf = self.sock.recv(1 << 20)
            self.sock.settimeout(0.04)
            while True:
                more = self.sock.recv(1 << 20)
                if not more:
                    break
                buf += more
        except socket.timeout:
            pass
        except OSError:
            pass
        return buf.decode("utf-8", "replace")

    def close(self):
        try:
            self.sock.close()
        except OSError:
            pass


class User:
    def __init__(self, uid, key, roles):
        self.uid, self.key, self.roles = uid, key, set(roles)
        self.perms = {}          # type -> {"read": bool, "write": bool} | "unspecified"
        self.active = True

    def is_admin(self):
        return "admin" in self.roles

    def can_read(self, t):
        """True / False / None (unspecified by the docs)"""
        if self.is_admin():
            return True
        p = self.perms.get(t)
        if p == "unspecified":
            return None
        role = bool(self.roles & ROLE_READ)
        if p is None:
            return role
        if p["read"]:
            return True
        if p["write"]:
            return role
        return None if role else False      # both revoked: "entry removed" vs "explicit denial" - the docs say both

    def can_write(self, t):
        if self.is_admin():
            return True
        p = self.perms.get(t)
        if p == "unspecified":
            return None
        role = bool(self.roles & ROLE_WRITE)
        if p is None:
            return role
        if not p["read"] and not p["write"]:
            return None if role else False
        return p["write"]


def parse_reply(text):
    """kind: auth_failed | error | ok | rows | other ; rows = list of dict"""
    t = text.strip()
    if not t:
        return "silent", [], None
    if t.startswith("ERROR: Authentication failed") or "Authentication failed" in t[:80] or t.startswith("401"):
        return "auth_failed", [], None
    if t.startswith("{"):
        cols, rows = None, []
        for line in t.split("\n"):
            try:
                v = json.loads(line)
            except ValueError:
                continue
            if isinstance(v, dict) and v.get("type") == "schema":
                cols = [c["name"] for c in v["columns"]]
            elif isinstance(v, dict) and v.get("type") == "batch" and cols:
                rows += [dict(zip(cols, r)) for r in v["rows"]]
            elif isinstance(v, dict) and v.get("type") == "row" and cols:
                rows.append(v.get("values", {}))
        return "rows", rows, None
    m = re.match(r"(\d{3})\b", t)
    code = int(m.group(1)) if m else None
    if code == 200 or t.startswith("OK"):
        return "ok", [], code
    return "error", [], code


def population_task(task, wdir, res):
    rng = random.Random(task["seed"])
    s = socket.socket(); s.bind(("127.0.0.1", 0)); port = s.getsockname()[1]; s.close()
    admin_id, admin_key = "root_admin", "adm-" + "%x" % rng.getrandbits(64)
    expiry = 2
    lt = Lifetimes(wdir, shard_count=rng.choice([1, 2]), fill_factor=50, bypass_auth=False, admin_user=admin_id, admin_key=admin_key,
                   tcp_port=port, token_expiry=expiry)
    node = lt.start()
    res.count("tasks"); res.count("populations")
    witness = {"seed": task["seed"], "steps": []}
    try:
        node.meta("serve")
        adm = None
        for _ in range(50):
            try:
                adm = Client(port)
                break
            except OSError:
                time.sleep(0.1)
        if adm is None:
            raise Inconclusive("TCP listener did not come up")
        r = adm.send("AUTH %s:%s" % (admin_id, sig(admin_key, admin_id)))
        if not r.startswith("OK TOKEN"):
            raise Inconclusive(f"admin AUTH failed: {r!r}")

        conn = {"adm": adm}

        def connect_admin():
            node_ = lt.node
            node_.meta("serve")
            a = None
            for _ in range(50):
                try:
                    a = Client(port)
                    break
                except OSError:
                    time.sleep(0.1)
            if a is None:
                raise Inconclusive("TCP listener did not come up after restart")
            r_ = a.send("AUTH %s:%s" % (admin_id, sig(admin_key, admin_id)))
            if not r_.startswith("OK TOKEN"):
                raise Inconclusive(f"admin AUTH failed after restart: {r_!r}")
            conn["adm"] = a

        def admin(cmd, expect_ok=True):
            rep = conn["adm"].send(sig(admin_key, cmd) + ":" + cmd)
            k, rows, code = parse_reply(rep)
            if expect_ok and k not in ("ok", "rows"):
                raise Inconclusive(f"admin command {cmd!r} -> {rep[:200]!r}")
            return k, rows, rep

        for t in TYPES:
            admin(f'DEFINE {t} FIELDS {{ k: "int", u: "string", note: "string" }}')
        kk = 0
        stored = {t: [] for t in TYPES}
        for t in TYPES:
            for _ in range(rng.randint(2, 5)):
                kk += 1
                admin(f'STORE {t} FOR c{kk % 3} PAYLOAD {{"k":{kk},"u":"u{kk % 2}","note":"n"}}')
                stored[t].append(kk)
        admin('CREATE USER probe_target WITH KEY "never-used"')     # target of the GRANT / SHOW PERMISSIONS probes, never probed itself
        admin("REMEMBER QUERY ta AS mat_ta")
        admin("REMEMBER QUERY tb AS mat_tb")
        # users
        id_pool = ["alice", "bob_2", "c-3", "bypass", "no-auth", "admin", "Admin", "Zoë", "x" * 64, "u7", "9lives", "ta"]
        rng.shuffle(id_pool)
        users = {}
        for uid in id_pool[:rng.randint(5, 8)]:
            roles = rng.choice([[], [], ["read-only"], ["viewer"], ["editor"], ["write-only"], ["admin"], ["unknown"], ["read-only", "write-only"]])
            key = "k-" + "%x" % rng.getrandbits(48)
            cmd = f'CREATE USER "{uid}" WITH KEY "{key}"' + (f" WITH ROLES [{', '.join(json.dumps(x) for x in roles)}]" if roles else "")
            k, _, rep = admin(cmd, expect_ok=False)
            witness["steps"].append(cmd.replace(key, "<key>"))
            if k == "ok":
                users[uid] = User(uid, key, roles)
        if len(users) < 2:
            raise Inconclusive("fewer than two users could be created")
        mats = {"ta": "mat_ta", "tb": "mat_tb"}
        counter = {"n": 0}
        tokens = {}      # uid -> (token, issue time)

        def probe_all(phase):
            for u in users.values():
                others = [o for o in users.values() if o is not u]
                other = rng.choice(others)
                t = rng.choice(TYPES)
                t2 = rng.choice([x for x in TYPES if x != t])
                counter["n"] += 1
                newk = 100000 + counter["n"]
                trick = rng.choice(["", " TOKEN " + "0" * 64, f" {other.uid}:{sig(other.key, 'QUERY ' + t)}:QUERY {t}", ":", " TOKEN"])
                cmds = [("query", f"QUERY {t}", ("read", [t])),
                        ("query_where", f"QUERY {t} WHERE k >= 0", ("read", [t])),
                        ("aggregate", f"QUERY {t} COUNT", ("read", [t])),
                        ("replay_typed", f"REPLAY {t} FOR c{rng.randint(0, 2)}", ("read", [t])),
                        ("replay_wildcard", f"REPLAY FOR c{rng.randint(0, 2)}", ("read_rows", TYPES)),
                        ("sequence", f"QUERY {t} FOLLOWED BY {t2} LINKED BY u", ("read", [t, t2])),
                        ("show", f"SHOW {mats.get(t, 'mat_ta')}", ("read", [t if t in mats else "ta"])),
                        ("remember", f"REMEMBER QUERY {t} AS m{counter['n']}_{rng.randint(0, 999)}", ("read", [t])),
                        ("store", f'STORE {t} FOR "cx{trick}" PAYLOAD {{"k":{newk},"u":"u0","note":"x{trick.replace(chr(34), "")}"}}', ("write", [t])),
                        ("define", f'DEFINE tz{counter["n"]} FIELDS {{ k: "int" }}', ("admin", [])),
                        ("create_user", f'CREATE USER made{counter["n"]} WITH KEY "zz"', ("admin", [])),
                        ("grant", f"GRANT READ ON {t} TO probe_target", ("admin", [])),
                        ("list_users", "LIST USERS", ("admin", [])),
                        ("show_permissions", "SHOW PERMISSIONS FOR probe_target", ("admin", []))]
                rng.shuffle(cmds)
                for fam, cmd, (need, types) in cmds[:task["cmds_per_user"]]:
                    form = rng.choice(["inline", "connection", "token"])
                    cred = rng.choice(["valid", "valid", "valid", "wrong_key", "truncated", "other_users_key", "other_command", "expired_token"])
                    if cred == "expired_token":
                        form = "token"
                    c = Client(port)
                    try:
                        key = {"valid": u.key, "wrong_key": u.key + "x", "other_users_key": other.key}.get(cred, u.key)
                        sg = sig(key, cmd)
                        if cred == "truncated":
                            sg = sg[:rng.choice([0, 1, 32, 63])]
                        if cred == "other_command":
                            sg = sig(u.key, cmd + " ")
                        authenticated = u.active and cred == "valid"
                        if form == "inline":
                            rep = c.send(f"{u.uid}:{sg}:{cmd}")
                        elif form == "connection":
                            ra = c.send("AUTH %s:%s" % (u.uid, sig(u.key, u.uid)))
                            if not ra.startswith("OK TOKEN"):
                                if u.active:
                                    res.count("positive_control_failed_auth")
                                rep = c.send(f"{sg}:{cmd}")
                                authenticated = False
                            else:
                                if not u.active:
                                    res.violation("revoked_key_authenticates", {"form": "connection", "phase": phase},
                                                  f"AUTH of user {u.uid!r} succeeded after REVOKE KEY", dict(witness, user=u.uid))
                                rep = c.send(f"{sg}:{cmd}")
                        else:
                            tok = tokens.get(u.uid)
                            if cred == "expired_token":
                                if not tok:
                                    continue
                                wait = tok[1] + expiry + 1.3 - time.time()
                                if wait > 0:
                                    time.sleep(wait)
                                rep = c.send(f"{cmd} TOKEN {tok[0]}")
                                authenticated = False
                            else:
                                ra = c.send("AUTH %s:%s" % (u.uid, sig(u.key, u.uid)))
                                if ra.startswith("OK TOKEN"):
                                    tk = ra.split()[-1]
                                    tokens[u.uid] = (tk, time.time())
                                    if not u.active:
                                        res.violation("revoked_key_authenticates", {"form": "token", "phase": phase},
                                                      f"AUTH of user {u.uid!r} succeeded after REVOKE KEY", dict(witness, user=u.uid))
                                    c2 = Client(port)
                                    use = {"valid": tk, "wrong_key": tk[:-1] + ("0" if tk[-1] != "0" else "1"), "truncated": tk[:20],
                                           "other_users_key": tk[::-1], "other_command": tk.upper() + "00"}[cred]
                                    rep = c2.send(f"{cmd} TOKEN {use}")
                                    c2.close()
                                    authenticated = u.active and cred == "valid"
                                else:
                                    rep = c.send(f"{cmd} TOKEN {'0' * 64}")
                                    authenticated = False
                    finally:
                        c.close()
                    res.evaluations += 1
                    kind, rows, code = parse_reply(rep)
                    sigd = {"command": fam, "form": form, "credential": cred if u.active else "revoked_key", "user_shape": shape_of(u.uid)}
                    w = dict(witness, user=u.uid, roles=sorted(u.roles), perms=u.perms, command=cmd, reply=rep[:300], phase=phase)
                    if not authenticated:
                        res.nontrivial((fam, form, sigd["credential"], "must_fail_auth"))
                        if kind != "auth_failed":
                            res.violation("executed_without_valid_credentials", sigd, f"{u.uid!r} {form}/{sigd['credential']}: {cmd[:80]!r} -> {rep[:160]!r}", w)
                        continue
                    # authenticated: authorisation
                    if need in ("read", "read_rows"):
                        denied = [x for x in types if u.can_read(x) is False]
                        leaked = sorted({r.get("event_type") for r in rows if r.get("event_type") in denied})
                        expect = "deny" if (need == "read" and denied) else "allow_or_filter"
                        res.nontrivial((fam, form, "valid", expect))
                        if leaked:
                            res.violation("rows_of_unreadable_type_returned", dict(sigd, roles="+".join(sorted(u.roles)) or "none"),
                                          f"{u.uid!r} (roles {sorted(u.roles)}, perms {u.perms}) ran {cmd!r}: {len(rows)} rows incl. types {leaked}", w)
                        elif need == "read" and denied and fam == "aggregate" and kind == "rows" and rows:
                            res.violation("aggregate_over_unreadable_type", sigd, f"{u.uid!r} ran {cmd!r}: {rows[:2]}", w)
                        elif need == "read" and denied and fam == "remember" and kind == "ok":
                            res.violation("remember_over_unreadable_type", sigd, f"{u.uid!r} ran {cmd!r}: {rep[:120]!r}", w)
                        elif kind in ("rows", "ok") and all(u.can_read(x) for x in types):
                            res.count("positive_controls_ok")
                    elif need == "write":
                        cw = u.can_write(types[0])
                        res.nontrivial((fam, form, "valid", {True: "allow", False: "deny", None: "unspecified"}[cw]))
                        if cw is False:
                            _, found, _ = admin(f"QUERY {types[0]} WHERE k = {newk}")
                            if kind == "ok" or found:
                                res.violation("store_without_write_permission", dict(sigd, roles="+".join(sorted(u.roles)) or "none"),
                                              f"{u.uid!r} (roles {sorted(u.roles)}, perms {u.perms}) stored into {types[0]}: {rep[:100]!r}; visible={bool(found)}", w)
                        elif cw and kind == "ok":
                            res.count("positive_controls_ok")
                    else:
                        res.nontrivial((fam, form, "valid", "allow" if u.is_admin() else "deny"))
                        if not u.is_admin() and kind in ("ok", "rows"):
                            res.violation("admin_command_by_non_admin", dict(sigd, roles="+".join(sorted(u.roles)) or "none"),
                                          f"{u.uid!r} (roles {sorted(u.roles)}) ran {cmd!r}: {rep[:120]!r}", w)
                        elif u.is_admin() and kind in ("ok", "rows"):
                            res.count("positive_controls_ok")
                            if fam == "create_user":
                                pass

        probe_all("initial")
        plain = [u for u in users.values() if re.fullmatch("[A-Za-z0-9_]+", u.uid)]
        def change(u):
            r = rng.random()
            ref = u.uid if re.fullmatch("[A-Za-z0-9_]+", u.uid) else json.dumps(u.uid, ensure_ascii=False)
            # one or several event types in one statement (the order of the list must not matter)
            ts = rng.sample(TYPES, rng.choice([1, 1, 2, len(TYPES)]))
            tl = ", ".join(ts)
            if r < 0.45:
                perms = rng.choice(["READ", "WRITE", "READ, WRITE"])
                cmd = f"GRANT {perms} ON {tl} TO {ref}"
                k, _, rep = admin(cmd, expect_ok=False)
                if k == "ok":
                    for t in ts:
                        p = u.perms.get(t)
                        if p in (None, "unspecified"):
                            p = {"read": False, "write": False}
                        u.perms[t] = {"read": p["read"] or "READ" in perms, "write": p["write"] or "WRITE" in perms}
            elif r < 0.8:
                perms = rng.choice(["READ", "WRITE", "READ, WRITE", ""])
                cmd = f"REVOKE {perms + ' ' if perms else ''}ON {tl} FROM {ref}"
                k, _, rep = admin(cmd, expect_ok=False)
                if k == "ok":
                    for t in ts:
                        p = u.perms.get(t)
                        if p is None or p == "unspecified":
                            u.perms[t] = "unspecified" if (u.roles & (ROLE_READ | ROLE_WRITE)) else {"read": False, "write": False}
                        else:
                            u.perms[t] = {"read": p["read"] and not ("READ" in perms or not perms), "write": p["write"] and not ("WRITE" in perms or not perms)}
            else:
                cmd = f"REVOKE KEY {ref}"
                k, _, rep = admin(cmd, expect_ok=False)
                if k == "ok":
                    u.active = False
            if len(ts) > 1:
                res.add_set("multi_type_statements", cmd.split()[0])
            return cmd, rep

        for step in range(task["steps"]):
            u = rng.choice(list(users.values()))
            # a burst: several changes to one user within the same wall-clock second (the auth log carries one-second timestamps)
            burst = rng.choice([1, 1, 2, 3, 4])
            for _ in range(burst):
                cmd, rep = change(u)
                if _ < burst - 1:
                    witness["steps"].append(cmd + " -> " + rep.strip().replace("\n", " | ")[:60])
            res.add_set("burst_sizes", burst)
            witness["steps"].append(cmd + " -> " + rep.strip().replace("\n", " | ")[:60])
            probe_all(f"after step {step}: {cmd}")
            if rng.random() < (0.6 if burst > 1 else 0.25):
                # users, keys, roles and permissions are reloaded from the auth log: what was revoked stays revoked
                how = rng.choice(["clean", "kill"])
                conn["adm"].close()
                if how == "clean":
                    lt.restart_clean()
                else:
                    lt.restart_kill()
                connect_admin()
                tokens.clear()
                witness["steps"].append(f"restart ({how})")
                res.add_set("restarts", how)
                probe_all(f"after step {step} + {how} restart")
        res.sample({"users": {u.uid[:12]: sorted(u.roles) for u in users.values()}, "steps": witness["steps"][-6:]})
        conn["adm"].close()
    finally:
        lt.stop()


def shape_of(uid):
    if uid in ("bypass", "no-auth", "admin", "Admin"):
        return uid
    if len(uid) >= 64:
        return "max_length"
    if not uid.isascii():
        return "unicode"
    if "-" in uid:
        return "hyphen"
    return "plain"


def run(run):
    quick = run.tier == "quick"
    n = 16 if quick else 96
    tasks = [{"name": f"p{i}", "seed": run.rng("p", i).getrandbits(44), "steps": 6 if quick else 14, "cmds_per_user": 5 if quick else 8} for i in range(n)]
    run.min_distinct = 40
    run.assumptions = ["permission model of user_management.md; an entry with both flags revoked under a reading / writing role is unspecified (the docs say "
                       "both 'entry removed' and 'explicit denial')", "wall clock appears only in token expiry (2 s expiry, probes after expiry + 1.3 s)",
                       "safety direction only: a refused authorised request is counted as a failed positive control, not as a violation"]
    run.parallel(population_task, tasks)


def replay(run, path):
    with open(path) as f:
        w = json.load(f)["witness"]
    run.parallel(population_task, [{"name": "replay", "seed": w["seed"], "steps": 14, "cmds_per_user": 8}], nproc=1)
