#!/bin/bash
# vnode under valgrind memcheck (plain release-like build): heap out-of-bounds / use-after-free / uninitialised-value use in the code the
# workload reaches. Unlike ASan it has no red zones around globals, so the deliberate in-page SIMD over-read of sonic-rs (a dependency) that
# ASan reports on every JSON response does not drown the run.
exec valgrind --quiet --error-exitcode=97 --errors-for-leak-kinds=none --leak-check=no --track-origins=no --num-callers=20 \
     --suppressions=/verif/san/memcheck.supp /verif/target/verif/vnode "$@"
