#!/bin/sh
# Build the harness (vnode / vunit / vserver) against /repo's working tree, offline.
set -e
cd "$(dirname "$0")/harness"
[ -f Cargo.lock ] || cp /repo/Cargo.lock Cargo.lock
CARGO_NET_OFFLINE=true cargo build --offline --profile verif --target-dir ../target 2>&1 | tail -3
