"""C09 - aggregates equal a fold over the events the same query selects (relational oracle, per state)."""
import datetime
import json
import math

from . import gen
from .gen import Field, Schema
from .hist import walk_tiers

RULE = ("history = fixed-shape schema (string/enum/int/float/nullable/datetime fields) x 20-40 events with repeated group keys, nulls, "
        "negative and float amounts x config; ~40 aggregate queries (1-4 metrics of COUNT / COUNT f / COUNT UNIQUE / TOTAL / AVG / MIN / MAX, "
        "BY 0-2 fields, PER HOUR/DAY/WEEK/MONTH USING a payload time field, FOR / WHERE scopes, LIMIT) per tier; each table is compared "
        "with a python fold over the rows the same query without aggregation returns back-to-back on the same state; "
        "distinct_nontrivial counts distinct (metric, field kind, by-shape, per, scope, limit, tier) combinations with >=2 groups or >=2 rows")

GRAN = {"HOUR": 3600, "DAY": 86400}


TZ = [None]     # configured zone of the running history (None = UTC)


def bucket_of(ts, gran):
    if TZ[0] is not None:
        from .c16 import bucket_ref       # calendar reference over zoneinfo (week starts on Monday in these runs)
        return bucket_ref(ts, gran, TZ[0], "Mon")
    if gran in GRAN:
        return ts - ts % GRAN[gran]
    d = datetime.datetime.fromtimestamp(ts, datetime.timezone.utc)
    if gran == "WEEK":
        d0 = (d - datetime.timedelta(days=d.weekday())).replace(hour=0, minute=0, second=0, microsecond=0)
    elif gran == "MONTH":
        d0 = d.replace(day=1, hour=0, minute=0, second=0, microsecond=0)
    else:
        d0 = d.replace(month=1, day=1, hour=0, minute=0, second=0, microsecond=0)
    return int(d0.timestamp())


def make_history(rng):
    fields = [Field("k", "int"), Field("g", "string"), Field("e", "enum", variants=["red", "green", "blue"]),
              Field("a", "int"), Field("f", "float"), Field("o", "int", optional=True), Field("os", "string", optional=True),
              Field("t", "datetime"), Field("u", "u64")]
    schema = Schema("ev", fields)
    ctxs = [f"c{j}" for j in range(rng.randint(2, 4))]
    n = rng.randint(18, 40)
    t0 = 1700000000
    events = []
    for i in range(n):
        p = {"k": i, "g": rng.choice(["x", "y", "z", ""]), "e": rng.choice(fields[2].variants),
             "a": rng.choice([-7, -1, 0, 1, 2, 5, 5, 100]), "f": rng.choice([-2.5, 0.0, 0.5, 1.25, 2.0, 10.75]),
             "t": t0 + rng.choice([0, 30, 3600, 7200, 86400, 86400 * 3, 86400 * 9, 86400 * 40]), "u": rng.choice([0, 1, 9, 40])}
        r = rng.random()
        if r < 0.25:
            p["o"] = None
        elif r < 0.4:
            pass
        else:
            p["o"] = rng.choice([1, 2, 3])
        r = rng.random()
        if r < 0.3:
            p["os"] = None
        elif r > 0.5:
            p["os"] = rng.choice(["p", "q"])
        events.append({"k": i, "ctx": rng.choice(ctxs), "payload": p})
    cfg = gen.gen_config(rng, zone=(1, 2, 3, 5), fill=(1, 2, 3, 50))
    # configured zone: the bucket a PER query reports is the local one (no DST transition falls into the 40 days of event times)
    cfg["timezone"] = rng.choice(["UTC", "UTC", "UTC", "Asia/Kolkata", "Asia/Kathmandu", "America/St_Johns", "Australia/Adelaide",
                                  "US/Eastern", "Europe/Amsterdam"])
    return schema, events, cfg, ctxs


METRICS = ["count", "count_field", "count_unique", "total", "avg", "min", "max"]


def gen_query(rng, schema, ctxs, clean):
    nm = rng.randint(1, 3)
    mets = []
    for _ in range(nm):
        m = rng.choice(METRICS)
        if m == "count":
            mets.append(("count", None))
        elif m in ("count_field", "count_unique"):
            fld = rng.choice(["g", "e", "a", "u"] if clean else ["g", "e", "a", "f", "o", "os", "u", "context_id"])
            mets.append((m, fld))
        elif m in ("total", "avg"):
            mets.append((m, rng.choice(["a", "u"] if clean else ["a", "f", "o", "u"])))
        else:
            mets.append((m, rng.choice(["a", "u", "t"] if clean else ["a", "f", "g", "t", "o", "u"])))
    # dedupe identical metrics (column names would collide)
    seen, m2 = set(), []
    for m in mets:
        if m not in seen:
            seen.add(m); m2.append(m)
    mets = m2
    by = []
    r = rng.random()
    if r < 0.5:
        by = rng.sample(["g", "e", "a"] if clean else ["g", "e", "a", "o", "os", "u"], rng.choice([1, 1, 2]))
    per = None
    if rng.random() < 0.3:
        per = rng.choice(["HOUR", "DAY", "WEEK", "MONTH"])
    scope_for = None if (clean or rng.random() < 0.75) else rng.choice(ctxs)
    where = None
    if rng.random() < (0.0 if clean else 0.3):
        where = rng.choice(["a > 0", "a <= 2", "u = 9", "k < 12", 'g = "x"', "a != 5"])
    limit = None
    if by and rng.random() < (0.0 if clean else 0.25):
        limit = rng.choice([0, 1, 2, 50])
    return {"mets": mets, "by": by, "per": per, "for": scope_for, "where": where, "limit": limit}


def render_metric(m):
    name, fld = m
    return {"count": "COUNT", "count_field": f"COUNT {fld}", "count_unique": f"COUNT UNIQUE {fld}", "total": f"TOTAL {fld}",
            "avg": f"AVG {fld}", "min": f"MIN {fld}", "max": f"MAX {fld}"}[name]


def render(q, agg=True):
    s = "QUERY ev"
    if q["for"]:
        s += f" FOR {q['for']}"
    if q["where"]:
        s += f" WHERE {q['where']}"
    if not agg:
        return s
    s += " " + ", ".join(render_metric(m) for m in q["mets"])
    if q["per"]:
        s += f" PER {q['per']} USING t"
    if q["by"]:
        s += " BY " + ", ".join(q["by"])
    if q["limit"] is not None:
        s += f" LIMIT {q['limit']}"
    return s


def keynorm(v):
    if v is None:
        return "\0null"
    if isinstance(v, bool):
        return str(v).lower()
    if isinstance(v, float) and v == int(v):
        return str(int(v))
    return str(v)


def fold(q, rows):
    """rows: list of dicts from the selection. Returns {group_key_tuple: [metric values]}."""
    groups = {}
    for r in rows:
        key = []
        if q["per"]:
            t = r.get("t")
            key.append(keynorm(bucket_of(t, q["per"])) if isinstance(t, int) else "\0null")
        for b in q["by"]:
            key.append(keynorm(r.get(b)))
        groups.setdefault(tuple(key), []).append(r)
    out = {}
    for key, rs in groups.items():
        vals = []
        for name, fld in q["mets"]:
            col = [r.get(fld) for r in rs] if fld else None
            nn = [v for v in col if v is not None] if col is not None else None
            if name == "count":
                vals.append(len(rs))
            elif name == "count_field":
                vals.append(len([v for v in col if v is not None]))
            elif name == "count_unique":
                vals.append(len({keynorm(v) for v in col if v is not None}))
            elif name == "total":
                nums = [v for v in col if isinstance(v, (int, float)) and not isinstance(v, bool)]
                vals.append(sum(nums) if nums else 0)
            elif name == "avg":
                nums = [v for v in col if isinstance(v, (int, float)) and not isinstance(v, bool)]
                vals.append(sum(nums) / len(nums) if nums else None)
            elif name == "min":
                vals.append(min(nn) if nn else None)
            else:
                vals.append(max(nn) if nn else None)
        out[key] = vals
    return out


def metric_equal(name, exp, got):
    if exp is None:
        return True   # empty input: unspecified
    if isinstance(got, bool):
        return False
    if name in ("count", "count_field", "count_unique"):
        return isinstance(got, int) and got == exp
    if isinstance(exp, (int, float)):
        if not isinstance(got, (int, float)):
            return False
        if isinstance(exp, int) and isinstance(got, int):
            return exp == got
        return math.isclose(float(exp), float(got), rel_tol=1e-9, abs_tol=1e-9)
    return exp == got


def field_kind(schema, fld):
    if fld is None:
        return "-"
    if fld == "context_id":
        return "context_id"
    f = schema.by_name[fld]
    return f.kind + ("?" if f.optional else "")


def history_task(task, wdir, res):
    import random
    rng = random.Random(task["seed"])
    schema, events, cfg, ctxs = make_history(rng)
    import zoneinfo
    TZ[0] = None if cfg["timezone"] == "UTC" else zoneinfo.ZoneInfo(cfg["timezone"])
    res.add_set("timezones", cfg["timezone"])
    qs = [gen_query(rng, schema, ctxs, clean=(i % 2 == 0)) for i in range(task["nq"])]
    setup = [schema.define_cmd()]
    stores = [gen.store_cmd("ev", e["ctx"], e["payload"]) for e in events]
    witness = {"seed": task["seed"], "config": cfg, "setup": setup, "stores": stores}
    res.count("tasks"); res.count("histories")
    res.sample({"config": gen.cfg_desc(cfg), "events": len(events), "queries": [render(q) for q in qs[:5]]})

    def report(rule, sig, detail, w, q, extra_family=None):
        """Attach the feature family named by open findings (first match wins); no family = clean partition."""
        fam = None
        if q["for"]:
            fam = "for_scope"
        elif q["limit"] is not None:
            fam = "limit"
        elif extra_family:
            fam = extra_family
        if fam:
            res.violation(rule, {"partition": "dirty", "family": fam}, detail, w)
        else:
            res.violation(rule, dict(sig, partition="clean"), detail, w)

    def observe(tier, node):
        res.add_set("tiers", tier)
        sel_cache = {}
        for q in qs:
            sel_text = render(q, agg=False)
            if sel_text not in sel_cache:
                rep = node.cmd(sel_text)
                sel_cache[sel_text] = rep.dicts() if rep.ok and rep.rows is not None else None
            rows = sel_cache[sel_text]
            text = render(q)
            rep = node.cmd(text)
            res.evaluations += 1
            w = dict(witness, query=text, tier=tier)
            by_shape = "none" if not q["by"] else ("nullable" if any(b in ("o", "os") for b in q["by"]) else "plain")
            base_sig = {"by": by_shape, "per": bool(q["per"]), "for": bool(q["for"]), "where": bool(q["where"]),
                        "limit": q["limit"] is not None, "tier": tier}
            if rep.kind == "panic":
                res.violation("aggregate_panicked", base_sig, f"{text}: {rep.message}", w)
                continue
            if rows is None:
                continue
            if not rep.ok or rep.rows is None:
                if q["limit"] == 0:
                    continue
                report("aggregate_failed", base_sig, f"{text}: {rep!r} {rep.raw[:200]!r}", w, q)
                continue
            expected = fold(q, rows)
            names = [c[0] for c in rep.columns]
            nkey = (1 if q["per"] else 0) + len(q["by"])
            if len(names) != nkey + len(q["mets"]):
                report("table_shape", base_sig, f"{text}: columns={names}", w, q)
                continue
            got = {}
            dup = False
            for r in rep.rows:
                key = tuple(keynorm(v) for v in r[:nkey])
                if key in got:
                    dup = True
                got[key] = r[nkey:]
            if len(expected) >= 2 or len(rows) >= 2:
                for m in q["mets"]:
                    res.nontrivial((m[0], field_kind(schema, m[1]), by_shape, bool(q["per"]), bool(q["for"]), bool(q["where"]),
                                    q["limit"] is not None, tier))
            if dup:
                report("group_reported_twice", base_sig, f"{text}: rows={rep.rows[:6]}", w, q)
            null_keys = {k for k in expected if "\0null" in k}
            if q["limit"] is not None:
                want = min(q["limit"], len(expected))
                if len(got) != want and not (null_keys and len(got) == min(q["limit"], len(expected) - len(null_keys))):
                    report("limit_group_count", base_sig, f"{text}: {len(got)} groups, expected min({q['limit']}, {len(expected)})", w, q)
                unknown = [k for k in got if k not in expected]
                if unknown:
                    report("limit_unknown_group", base_sig, f"{text}: groups {unknown[:4]} not in the unlimited answer", w, q)
            else:
                missing = [k for k in expected if k not in got and k not in null_keys]
                extra = [k for k in got if k not in expected]
                nullmissing = [k for k in null_keys if k not in got]
                if missing:
                    fam = "empty_string_group_key" if all("" in k for k in missing) else None
                    report("group_missing", base_sig, f"{text}: missing groups {missing[:4]} (have {list(got)[:6]})", w, q, fam)
                if extra and not (nullmissing and len(extra) == len(nullmissing)):
                    report("group_extra", base_sig, f"{text}: extra groups {extra[:4]} (expected {list(expected)[:6]})", w, q)
                if nullmissing and len(extra) < len(nullmissing):
                    report("null_group_dropped", dict(base_sig, by="nullable"),
                           f"{text}: {len(nullmissing)} group(s) with a null key are not reported (events contribute to no group)", w, q,
                           "null_group_key")
            for key, vals in got.items():
                if key not in expected:
                    continue
                for (name, fld), ev, gv in zip(q["mets"], expected[key], vals):
                    if not metric_equal(name, ev, gv):
                        sig = dict(base_sig, metric=name, field_kind=field_kind(schema, fld),
                                   observed=("type_" + type(gv).__name__) if (isinstance(ev, (int, float)) and not isinstance(gv, (int, float))) else "value")
                        fk = sig["field_kind"]
                        fam = None
                        if fk.startswith("float"):
                            fam = "float_metric"
                        elif name in ("count_field", "count_unique", "avg") and fk.endswith("?"):
                            fam = "metric_over_nullable"   # MIN / MAX / TOTAL over nullable fields are correct on the tree and stay asserted
                        report("metric_mismatch", sig,
                               f"{text} @ {tier}: group {key} {name}({fld}) = {gv!r}, fold over the selection gives {ev!r} ({len(rows)} selected rows)", w, q, fam)

    walk_tiers(wdir + "/a", cfg, setup, stores, observe, stages=("mem", "flush", "c1", "restart"))


def run(run):
    n = 16 if run.tier == "quick" else 300
    nq = 40 if run.tier == "quick" else 60
    tasks = [{"name": f"h{i}", "seed": run.rng("hist", i).getrandbits(48), "nq": nq} for i in range(n)]
    run.min_distinct = 40
    run.assumptions = ["relational oracle: the fold is over the rows the engine itself returns for the same query without aggregation, "
                       "so selection defects (C02) do not leak in", "metrics over an empty input and the label of a null group key are unspecified",
                       "PER buckets computed in the configured zone (UTC and six others, two thirds of them with a non-whole-hour offset) over zoneinfo; DST transitions, "
                       "eras and week starts are C16's subject"]
    run.parallel(history_task, tasks)


def replay(run, path):
    with open(path) as f:
        w = json.load(f)
    run.parallel(history_task, [{"name": "replay", "seed": w["witness"]["seed"], "nq": 40}], nproc=1)
