use serde_json::{Value, json};
pub fn run(_input: &Value) -> Value {
    json!({"error": "not implemented"})
}
