"""Generates /verif/MANIFEST.json from the table below:  python3 -m vp.manifest"""
import json
import os

VERIF = os.path.dirname(os.path.dirname(os.path.abspath(__file__)))

ALL = ["C%02d" % i for i in range(1, 21)]

# id -> (level, technique, level text, level note, design ref)
CHECKS = {
    "C07": ("exploration",
            "runtime monitoring: per-cell reference + cross-tier oracle over generated histories walked through every storage tier",
            "Generated schemas/values are stored once and read back through QUERY / RETURN / REPLAY in memory, L0, "
            "compacted (x2), clean-restart and WAL-recovered layouts of the real engine; every returned cell is compared by "
            "column name with the stored JSON value. Assurance is 'held on the (kind, value class, tier, read form) cells "
            "counted in evidence'; not a proof.",
            "trusts python json, the vnode framing, and the repo's JsonRenderer as the observation channel; known findings "
            "are matched per cell by (kind, value class, observed class, tier)",
            "DESIGN.md §4 C07"),
    "C02": ("exploration",
            "runtime monitoring: three-valued reference predicate oracle + cross-layout relational oracle over generated histories",
            "Generated typed schemas, small-domain events and ~45 predicates per history (leaves of every field-kind/operator/literal-kind "
            "class, AND/OR/NOT trees, FOR, SINCE..USING) are asked of the real engine in memory / mixed / L0 / compacted x2 / restart / "
            "WAL-recovered layouts; returned k-sets are compared with a reference evaluation and across layouts. Half of the queries "
            "avoid every feature family named by an open finding so that unlisted discrepancies stay detectable.",
            "reference semantics taken from docs/src/commands/query.md; comparisons with null/absent fields and string ordering are "
            "unspecified and only checked for layout invariance; known findings match on the query's first feature family",
            "DESIGN.md §4 C02"),
    "C06": ("exploration",
            "runtime monitoring: documented-validator oracle on STORE status + visibility re-checks after FLUSH and restart",
            "Named payload mutators (drop/add/misspell key, every JSON type in every slot, i64/u64 boundaries, floats for ints, nested "
            "values, enum case, unparseable times, empty contexts, undefined type) are applied to conforming payloads of generated schemas; "
            "the acknowledgement is compared with a validator written from the docs and every accepted/rejected k is re-checked for "
            "visibility after the STORE, after FLUSH and after restart; failed DEFINEs must leave the schema in force.",
            "payload classes the docs leave open are 'unspecified' and only checked for ack <=> visible exactly once",
            "DESIGN.md §4 C06"),
    "C12": ("exploration",
            "runtime monitoring: shard-tag / directory / scoped-vs-unscoped oracles over multi-lifetime histories",
            "Context ids of many shapes are stored in three process lifetimes (clean restarts) under shard counts 1..16; the shard tag in "
            "event ids must be constant per context within and across lifetimes, WAL lines must sit under the tagged shard's directory, "
            "QUERY/REPLAY FOR ctx must return exactly the context's events, the unscoped QUERY exactly the union, and the unscoped "
            "ORDER BY k DESC LIMIT 1..3 the top-n of the union (newest events in memory on some shards, older ones in segments of others). A burst "
            "task writes 4300 / 8300 events to one context while the scripted clock is 60-120 s behind the shard's newest id.",
            "shard tag decoded from event_id bits 12..21; crash restarts are excluded here (loss after crash is C01's subject)",
            "DESIGN.md §4 C12"),
    "C09": ("exploration",
            "runtime monitoring: relational oracle (python fold over the engine's own selection on the same state) per storage tier",
            "Aggregate queries (1-3 metrics, BY 0-2 fields, PER bucket on a payload time field, FOR/WHERE scopes, LIMIT) over generated "
            "event multisets are compared, in memory / mixed / L0 / compacted / restart layouts, with a fold over the rows the same "
            "query without aggregation returns back to back: group keys, group count and every metric value; the configured time zone is drawn "
            "from UTC and six others (PER reference over zoneinfo).",
            "relational: selection defects do not leak in; metrics over empty inputs and the label of a null group are unspecified; "
            "known findings match on the first feature family of the failing table cell",
            "DESIGN.md §4 C09"),
    "C10": ("exploration",
            "runtime monitoring: relational oracle (python sort/slice of the engine's own unordered selection) per storage tier",
            "ORDER BY f [DESC] LIMIT n OFFSET m queries over int/float/string/datetime/nullable/core-timestamp keys with duplicate and "
            "missing values, n and m around 0, 1, |R| and beyond, WHERE/FOR scopes, data split over 1-5 shards and memory / L0 / compacted / "
            "restart layouts incl. a memtable on top of segments, plus deep pages (OFFSET >= 10 x LIMIT) and small unordered scoped pages; checks monotonicity, membership, multiplicity, slice size and the key multiset of positions m..m+n; "
            "OFFSET without LIMIT must be rejected.",
            "ties arbitrary, nulls first or last accepted; scripted clock (hook) makes core timestamps distinct",
            "DESIGN.md §4 C10"),
    "C01": ("fault_enumeration",
            "runtime monitoring with crash injection: named step points x generated histories, restart on the same directories, client-boundary oracle",
            "Six history templates (auto-flush only, manual FLUSH, empty FLUSH, mid-history restart, compaction, compaction+restart) are "
            "instantiated per seed/configuration; a dry run records which of the ~60 named step points (WAL append/rotation, memtable rotation, "
            "segment write, index replace, publication, passive release, WAL cleanup, compaction write/hand-over/reclaim) fire; the history "
            "is re-run once per (point, first/last hit; thorough: every hit up to 40) with _exit at that point, plus SIGKILL between commands; "
            "after restart QUERY/REPLAY/COUNT are checked against the applied/open sets, again after FLUSH+compaction and after a clean restart. "
            "Overlap histories park a flush at its index-update points resp. the compaction hand-over before/after it takes the flush lock while "
            "the other side runs, then SIGKILL + restart: nothing acknowledged may be missing.",
            "applied = acked + completed mailbox/WAL-drained barrier; crash = process death (no power-loss model); losses are attributed "
            "observationally (was the WAL line ever visible / still on disk at the crash) so that listed findings do not hide other losses",
            "DESIGN.md §4 C01"),
    "C05": ("fault_enumeration",
            "runtime monitoring: before/after relational oracle around deterministic compaction rounds + crash injection at every compaction step point",
            "Three event types with different segment membership are flushed into k..2k+2 segments under merge fan-in 2..4 / zone sizes 1,2,5; "
            "up to 6 rounds run through the repo's CompactionWorker/Handover with the shard's own live list and flush lock; rows (k, ctx, payload, "
            "event id), typed REPLAY membership and COUNT/TOTAL/MIN/MAX are compared before/after each round, COUNT against distinct rows, and "
            "index/live list against the executed plans; every cw/mc/zw/idx/ho/rc step point x first/last hit is crashed, restarted and compared "
            "with the pre-round observation, followed by a further round; failure clause: every batch is parked after creating its output "
            "directory, a directory is planted where one output file of one event type must be created, and the observation must be unchanged "
            "after the failed run, after removing the obstacle + another round, and after restart.",
            "deterministic rounds bypass only the timer and pressure gates of compactor/background.rs; aggregates are not compared across crash "
            "restarts (C01's WAL double count would mask)",
            "DESIGN.md §4 C05"),
    "C11": ("fault_enumeration",
            "runtime monitoring: file-system monitor (sha256 manifests + decoded segments.idx + live list) over the crash histories",
            "The C01 templates are replayed with an @fs observation after every command, hook-side manifests at every flush/compaction step "
            "point, and after every crash (each segment-touching step point x first/last hit, SIGKILL) + restart; the monitor asserts that "
            "files of a published segment never change while it is published, that a directory left unpublished by an earlier lifetime "
            "is never published later, and that everything named by the live list or index is complete; multi-type compaction histories add "
            "step-point snapshots that carry the decoded on-disk index (read before and after the directory walk), so a segment that is "
            "named at one step point and changed at a later one inside the same command is seen.",
            "completeness is file presence/non-emptiness of .zones/.idx/.icx and core column files per uid (payload columns of optional "
            "fields may legitimately be absent); instants inside one syscall are not distinguishable for a process crash",
            "DESIGN.md §4 C11"),
    "C03": ("exploration",
            "runtime monitoring: pause hooks at every flush step + read-path parking + TCP stress with interval oracle",
            "Stepped: the auto-flush is parked at each of 23 named points of its pipeline and QUERY / COUNT / REPLAY are issued while it is "
            "parked, with further rotations queued behind it (more than max_inflight_passives in {1,2,3,8} of them), and after release. Crossing: a read is parked at each read-path point after its "
            "plan / passive snapshot was taken, the flush (parked at F or not yet started) runs to completion, the read resumes. Stress: real "
            "TCP connections, concurrent writers/readers, seeded delays, write bursts and quiet periods; every read is judged against the "
            "events acknowledged before its call / issued before its return. @state is recorded with every read (distinct visibility states "
            "are counted in evidence).",
            "step points are enumerated, interleavings inside a step and tokio scheduling are sampled; manual FLUSH blocks the shard mailbox and "
            "cannot interleave with reads (covered by C01/C02)",
            "DESIGN.md §4 C03"),
    "C04": ("exploration",
            "runtime monitoring: sequence oracle on REPLAY against the per-context append list, with read-path delays forcing both stream arrival orders",
            "Contexts with interleaved appends of two event types are replayed (typed, typed+RETURN, SINCE..USING, wildcard) after every "
            "second step of histories that place FLUSH / auto-flush / compaction rounds / restarts between the appends (all single placements "
            "in a 6-append sequence + random histories), under zone sizes 1-3, fill 1-50, fan-in 2-3, on the real clock or a scripted wall clock that "
            "steps back and forth between appends, each replay without delay and with a "
            "15 ms delay at rd.memtable_flow_start resp. rd.segment_flow_start.",
            "single writer per history so apply order = issue order; the layout class in signatures is derived from the history",
            "DESIGN.md §4 C04"),
    "C08": ("exploration",
            "runtime monitoring: brute-force zone scan vs every pruning structure, built by the real flush/compaction and probed through the query path's pruners",
            "The engine flushes and compacts generated events into segments with up to ~60 zones; vunit c08 reads zone membership back by key and "
            "asks RangePruner (SuRF), XorPruner (zone XOR index and field XOR filter), EnumPruner (bitmaps), TemporalPruner (calendar + per-zone "
            "time index) and the context ZoneIndex for candidate zones of ~500 probes per shard and level; every zone with a satisfying row "
            "(independent typed comparison in python) must be a candidate whenever the structure answers.",
            "trusts the repo's ColumnReader for zone membership by key; a structure that declines (None) is not judged",
            "DESIGN.md §4 C08"),
    "C17": ("exploration",
            "runtime monitoring: generated-input fuzzing of the public parse entry point in child processes (panic hook, abort and timeout attribution) + AST round-trip + dispatch against a live engine",
            "Random strings, grammar-derived commands of every family and 14 mutators (number widening, nesting to depth 20000, unterminated "
            "strings/JSON, non-ASCII, keywords as identifiers, ...) are parsed by parse_command in sharded child processes; generated expression "
            "trees printed with minimal parentheses, random keyword case and redundant parentheses must parse back to the same tree and two "
            "spellings of one command to equal Commands; one command printed with plain and with exotic content (case-mapping characters, "
            "keywords, separators, brackets) inside its quoted literals must be accepted alike and parse to the same command up to the "
            "literal; every parsed command is dispatched against a live engine and must be answered.",
            "termination judged as bounded progress (120 s per batch, 60 s per isolated input, 3 confirmations); overflow checks are not enabled "
            "in the engine profile (flow/metrics.rs statistics underflow by design)",
            "DESIGN.md §4 C17"),
    "C14": ("exploration",
            "runtime monitoring: relational oracle (SHOW m vs QUERY q back to back at quiescent points) over scripted-clock histories",
            "Remembered selection queries (plain, WHERE, FOR, SINCE, RETURN) are shown three times at every quiescent point of histories in "
            "which events arrive on the high-water second, one or many seconds later, within one millisecond on different shards, with FLUSH, "
            "auto-flush, compaction and clean restarts in between; SHOW must equal the live QUERY as a multiset of unique keys, repeated SHOWs "
            "must agree, and REMEMBER under a taken name must fail.",
            "the hook clock never goes backwards; REMEMBERs issued while a flush is in flight (25% of the histories) inherit the C03 in-flight "
            "read findings and are matched to one known finding",
            "DESIGN.md §4 C14"),
    "C15": ("exploration",
            "runtime monitoring: reference oracle (python sequence matcher from query.md) per storage tier over generated linked histories",
            "Two linked event types plus a noise type are stored with link values shared by many events / one side only / unique and times from "
            "a small domain (payload datetime with USING TIME, or the hook clock for the core timestamp); FOLLOWED BY / PRECEDED BY queries with "
            "a-side, b-side, both-side, OR and unprefixed conditions and LIMITs are asked in memory / mixed / L0 / compacted / restart layouts; "
            "every returned pair must be valid, the matched a-set must equal the reference set and LIMIT counts must be min(n, matchable).",
            "the reported partner of an a-event with several qualifying partners is unspecified; WHERE is read per side (projection on the "
            "leaves addressed to that side), conditions on fields a type lacks are unspecified; repeated pairs in compacted tiers are a known finding",
            "DESIGN.md §4 C15"),
    "C16": ("exploration",
            "runtime monitoring: reference oracle (python datetime / zoneinfo) + relational oracle (query vs read-back values, spelling vs spelling) over generated time histories, one process per time-zone configuration",
            "Instants (recent, pre-1970, beyond 2106, fractional, on unit and DST boundaries, at the digit-count boundaries of the epoch-unit rule) "
            "are stored in every accepted spelling and read back in memory / L0 / compacted layouts; SINCE..USING and WHERE literals in every "
            "spelling x 6 operators must select exactly the events whose read-back value satisfies the comparison; PER HOUR..YEAR bucket keys "
            "must be the calendar unit start under UTC, US/Eastern, Asia/Kolkata, Pacific/Chatham, America/Havana x week start Mon/Sun.",
            "an integer spelling is asserted only where the documented digit rule identifies its unit; DST zones are not asserted beyond 2036 "
            "(library extrapolation); segment histories keep instants within ~2 years because the on-disk calendar enumerates every hour of a "
            "zone's range (a magnitude mix is only driven in memory)",
            "DESIGN.md §4 C16"),
    "C18": ("exploration",
            "runtime monitoring: online oracle next to EventIdGenerator::next under a scripted clock (vunit) + id-column oracle over store histories with scripted clock, crash and clean restarts",
            "Generator scripts (bursts far above 4096 ids per millisecond, sequence wrap and wait, idle gaps, backward steps of 1 ms - 1 h inside a "
            "burst, restarts with the clock ahead / level / behind, all shard ids) are checked online for strictly increasing, never repeated ids "
            "with correct shard bits; store histories with bursts of ~4500 events in one scripted millisecond, FLUSH, compaction, SIGKILL and clean "
            "restarts read the event_id of every event after every step: globally unique, constant per event across tiers and recovery, increasing "
            "in apply order within the shard, no event dropped by id dedup; the schema carries payload fields named event_id and timestamp.",
            "the hook clock ticks after a fixed number of reads (a frozen clock would never end the generator's wait); lifetimes that start with "
            "the clock level with or behind the newest stored id are matched to the generator-restarts-from-zero finding",
            "DESIGN.md §4 C18"),
    "C19": ("fault_enumeration",
            "runtime monitoring with injected archive-side faults: the flush worker's cleanup call over generated WAL directories (vunit), offline oracle over directory listings and archive recovery",
            "WalCleaner::new(shard).cleanup_up_to(n) is run in conservative mode over generated WAL directories (0-6 files, gaps, ids around "
            "99999/100000, empty / torn / blank-line files, hostile payload values) for every cut-off, in one or two passes, under each archive "
            "fault: shard archive path is a regular file, a directory at the deterministic archive name of a subset of the eligible logs (all 16 "
            "subsets of up to four eligible files in the enumerated plans, random beyond), a pre-existing regular file of that name (garbage / "
            "empty / truncated archive / valid archive of other or the same entries), injected write failure for a subset. A log may disappear "
            "only if an archive decoding to exactly its entries exists, a pass with a failing eligible log deletes nothing, logs at or above the "
            "cut-off stay, a healthy pass deletes every eligible log, recover_all returns the archived logs in log order. Fault-free engine "
            "histories in conservative mode (STORE / FLUSH / auto-flush / restart) are checked with the same oracle on the real flush-worker path.",
            "the sandbox runs as root: permission bits cannot deny, EISDIR / ENOTDIR / pre-existing files / the wa.write hook stand in; the "
            "enumeration is complete only over fault subsets of <= 4 eligible logs, the rest is sampled",
            "DESIGN.md §4 C19"),
    "C20": ("exploration",
            "runtime monitoring: differential oracle over the three response encodings, decoded by independent readers (python json, arrow-ipc StreamReader), for generated result sets fed to the real QueryResponseWriter (vunit) and for real engine answers dispatched once per renderer",
            "Generated schemas over every logical type x batches of typed, null, boundary and foreign-typed cells x duplicate event ids at batch "
            "edges / interior x LIMIT/OFFSET x streaming batch sizes {default,0,1,2,3} (one process each) are written through JsonRenderer, "
            "UnixRenderer and ArrowRenderer; engine histories are queried (selection, RETURN, aggregates, PER, REPLAY, SHOW, failing commands) "
            "once per renderer in memory / L0 / compacted / restart layouts. Column names, row counts, the announced row_count, every cell and "
            "error status codes must agree.",
            "engine answers are compared as multisets (three separate executions); LIMIT queries are only driven through the direct monitor; "
            "five cell families are known findings (Arrow timestamp unit, non-finite floats, JSON re-parsing of strings, foreign-typed cells, "
            "numeric cells of String-typed result columns)",
            "DESIGN.md §4 C20"),
    "C13": ("exploration",
            "runtime monitoring: reference permission model (user_management.md) against replies observed at the real TCP listener with authentication enabled; python clients sign with HMAC-SHA256 themselves",
            "Populations of users (id shapes incl. reserved-looking ones, role sets, GRANT / REVOKE / REVOKE KEY sequences over three event types) "
            "issue every data-reaching command kind (QUERY, aggregate, REPLAY typed / wildcard, sequence query, REMEMBER, SHOW, STORE, DEFINE, user "
            "and permission management) under inline signature, connection AUTH + signature and session token, with valid, wrong-key, truncated, "
            "other-user, other-command, expired-token and revoked-key credentials and payloads carrying ' TOKEN ', ':' and other users' valid "
            "signatures. A reply with rows of an unreadable type, an accepted STORE without write permission, a successful admin command by a "
            "non-admin, or anything but an authentication failure under invalid credentials is a violation. GRANT / REVOKE name one to three event types; changes come in same-second bursts "
            "and the server is restarted (clean / kill) between steps: the whole matrix is probed again against the reloaded auth log.",
            "safety direction only (executed => authenticated and authorised); a permission entry with both flags revoked under a role is left "
            "unasserted because the docs describe it both ways; Compare/PLOT and BATCH are not driven; token expiry is the only wall-clock element",
            "DESIGN.md §4 C13"),
}

PENDING_REASON = "check not built yet in this session (see DESIGN.md §10 for the order); no claim is made"


def main():
    checks = []
    for pid in ALL:
        if pid not in CHECKS:
            continue
        level, technique, text, note, ref = CHECKS[pid]
        checks.append({
            "property_id": pid,
            "quick_cmd": f"./check {pid} --tier quick",
            "thorough_cmd": f"./check {pid} --tier thorough",
            "evidence_file": f"evidence/{pid}.json",
            "replay_cmd_template": f"./check {pid} --replay {{path}}",
            "engine": "vp+vnode",
            "level_claimed": {"category": level, "text": text, "design_ref": ref},
            "level_note": note,
            "technique": technique,
        })
    man = {
        "version": 1,
        "setup_cmd": "./setup.sh",
        "hooks": {
            "guard": "cargo feature verif-hooks",
            "enable": "the harness crate depends on snel_db with features=[\"verif-hooks\"] (cargo build --profile verif in /verif/harness)",
            "baseline_off_cmd": "cd /repo && cargo nextest run --workspace --no-fail-fast --test-threads 8 --offline || cargo test --workspace --no-fail-fast --offline",
            "source_commits": HOOK_COMMITS,
            "add_only": True,
        },
        "engines": [
            {"name": "vp+vnode", "path": "vp/ + harness/src/bin/vnode.rs",
             "serves_properties": sorted(CHECKS),
             "kind_free_text": "python orchestrator (generators, reference model, oracles, known-finding triage) driving the "
                               "real engine in a child process per database lifetime; hooks give crash/pause/delay/clock/fault control"},
        ],
        "checks": checks,
        "notes": "Runtime monitoring only. Exit 0 = held (KNOWN-FINDING lines possible), 1 = VIOLATION, 2 = inconclusive.",
        "not_applicable": [{"property_id": p, "reason": NOT_APPLICABLE.get(p, PENDING_REASON)} for p in ALL if p not in CHECKS],
    }
    with open(os.path.join(VERIF, "MANIFEST.json"), "w") as f:
        json.dump(man, f, indent=1)
    print("wrote MANIFEST.json with", len(checks), "checks")


HOOK_COMMITS = ["a2f8d7c", "6a7b11e"]
NOT_APPLICABLE = {}

if __name__ == "__main__":
    main()
