//! File-system observation: manifests of the data / WAL directories and an
//! independent decode of `segments.idx`.

use serde_json::{Value, json};
use sha2::{Digest, Sha256};
use std::os::unix::fs::MetadataExt;
use std::path::Path;

fn walk(root: &Path, dir: &Path, hash: bool, out: &mut Vec<Value>) {
    let Ok(rd) = std::fs::read_dir(dir) else {
        return;
    };
    let mut entries: Vec<_> = rd.flatten().collect();
    entries.sort_by_key(|e| e.file_name());
    for e in entries {
        let p = e.path();
        let Ok(md) = std::fs::symlink_metadata(&p) else {
            continue;
        };
        let rel = p.strip_prefix(root).unwrap_or(&p).to_string_lossy().to_string();
        if md.is_dir() {
            out.push(json!({"p": rel, "d": true}));
            walk(root, &p, hash, out);
        } else {
            let mut o = json!({
                "p": rel,
                "s": md.len(),
                "m": md.mtime() as i128 * 1_000_000_000 + md.mtime_nsec() as i128,
                "i": md.ino(),
            });
            if hash {
                if let Ok(bytes) = std::fs::read(&p) {
                    let mut h = Sha256::new();
                    h.update(&bytes);
                    o["h"] = json!(hex::encode(h.finalize()));
                }
            }
            out.push(o);
        }
    }
}

pub fn manifest(root: &Path, hash: bool) -> Value {
    let mut out = Vec::new();
    walk(root, root, hash, &mut out);
    Value::Array(out)
}

/// Independent decode of `<shard_dir>/segments.idx`: 20-byte header, then
/// bincode `Vec<(u32, Vec<String>)>`. Returns None if the file is absent.
pub fn decode_index(shard_dir: &Path) -> Option<Result<Vec<(u32, Vec<String>)>, String>> {
    let p = shard_dir.join("segments.idx");
    let bytes = match std::fs::read(&p) {
        Ok(b) => b,
        Err(e) if e.kind() == std::io::ErrorKind::NotFound => return None,
        Err(e) => return Some(Err(e.to_string())),
    };
    if bytes.len() < 20 {
        return Some(Err(format!("short index file: {} bytes", bytes.len())));
    }
    #[derive(serde::Deserialize)]
    struct E {
        id: u32,
        uids: Vec<String>,
    }
    match bincode::deserialize::<Vec<E>>(&bytes[20..]) {
        Ok(v) => Some(Ok(v.into_iter().map(|e| (e.id, e.uids)).collect())),
        Err(e) => Some(Err(e.to_string())),
    }
}

pub fn index_json(shard_dir: &Path) -> Value {
    match decode_index(shard_dir) {
        None => Value::Null,
        Some(Err(e)) => json!({"error": e}),
        Some(Ok(v)) => Value::Array(
            v.into_iter()
                .map(|(id, uids)| json!({"id": id, "uids": uids}))
                .collect(),
        ),
    }
}
