"""C02 - a query returns exactly the matching events, wherever they are stored.

Reference oracle: typed three-valued predicate evaluation over the stored payloads (rows whose predicate
value is unspecified - null field, undocumented comparison - are excluded from the reference clause).
Relational oracle: the same query must return the same k-set in every layout."""
import json
import os

from . import gen, pred
from .hist import walk_tiers, walk_crash

RULE = ("history = generated typed schema x 20-40 small-domain events x config (zones mix matching and non-matching rows), plus dense "
        "histories (one segment of >10 zones per shard beside small segments, FLUSH between chunks, range probes at the data's extremes "
        "so the >90%-hit full-scan fallback and pruned segments meet in one answer); "
        "~45 queries (single leaves of every (field kind, operator, literal kind) class, AND/OR/NOT trees to depth 3, FOR, "
        "SINCE..USING) asked in tiers mem/flush/c1/c2/restart/recovered; a case is one (query, tier) evaluation; "
        "distinct_nontrivial counts distinct (leaf class | tree shape, tier) pairs whose reference answer is neither empty nor all rows")


def make_history(rng, dense=False):
    kinds = ["int", "float", "string", "bool", "enum", "datetime", "u64", "int", "string"]
    schema = gen.gen_schema(rng, "ev", kinds=kinds, nfields=rng.randint(3, 6))
    ctxs = [f"c{j}" for j in range(rng.randint(2, 5))]
    if dense:
        # segments with more than ten zones next to small ones: the range pruner gives up on a segment whose
        # zones match a probe to >90% (full-scan fallback), so answers mix both zone sources
        cfg = gen.gen_config(rng, shards=(1, 1, 2), zone=(1, 1, 2), fill=(100,))
        per = cfg["event_per_zone"] * cfg["shard_count"]
        chunks = [rng.randint(11, 15) * per + rng.randint(0, per)] + [rng.randint(1, 3 * per) for _ in range(rng.randint(1, 3))]
        rng.shuffle(chunks)
        events = gen.gen_events(rng, schema, sum(chunks), ctxs)
        return schema, events, cfg, ctxs, chunks
    n = rng.randint(18, 40)
    events = gen.gen_events(rng, schema, n, ctxs)
    cfg = gen.gen_config(rng, zone=(1, 2, 3, 5, 8), fill=(1, 2, 3, 50))
    return schema, events, cfg, ctxs, None


def wide_leaves(rng, schema, data_values):
    """Range probes that hold for (nearly) every row: bounds at / next to the extremes of the data."""
    out = []
    for f in schema.fields:
        if f.optional or f.kind not in ("int", "u64", "datetime"):
            continue
        present = sorted(v for v in data_values.get(f.name, []) if v is not None)
        if not present:
            continue
        lo, hi = present[0], present[-1]
        lo2 = next((v for v in present if v > lo), lo)
        hi2 = next((v for v in reversed(present) if v < hi), hi)
        for op, lit, lk in ((">=", lo, "wide_min"), (">", lo, "wide_above_min"), (">=", lo2, "wide_second_min"),
                            ("<=", hi, "wide_max"), ("<", hi, "wide_below_max"), ("<=", hi2, "wide_second_max")):
            if f.kind == "u64" and lit < 0:
                continue
            out.append(pred.Leaf(f.name, op, lit, lk, f"{f.name} {op} {pred.lit_text(lit)}"))
    rng.shuffle(out)
    return out


def build_queries(rng, schema, events, ctxs, nq, wide=0):
    data_values = {}
    for e in events:
        for f in schema.fields:
            data_values.setdefault(f.name, []).append(e["payload"].get(f.name))
    qs = []
    clean_field = lambda f: (not f.optional) and f.kind in ("int", "u64", "string", "enum", "datetime", "bool")
    for i in range(nq):
        r = rng.random()
        want_clean = (i % 2 == 0)
        if want_clean:
            # masking control: half of the queries avoid every feature family named by an open finding
            e = None
            for _ in range(40):
                c = pred.gen_leaf(rng, schema, data_values, clean_field) if r < 0.5 else \
                    pred.gen_tree(rng, schema, data_values, rng.randint(1, 3), clean_field)
                if not families({"expr": c, "since": None}, schema):
                    e = c
                    break
            if e is None:
                e = pred.gen_leaf(rng, schema, data_values)
        elif r < 0.55:
            e = pred.gen_leaf(rng, schema, data_values)
        elif r < 0.65:
            e = pred.Not(pred.gen_leaf(rng, schema, data_values))
        else:
            e = pred.gen_tree(rng, schema, data_values, rng.randint(1, 3))
        q = {"expr": e, "ctx": None, "since": None}
        r2 = rng.random()
        if r2 < 0.15:
            q["ctx"] = rng.choice(ctxs + ["nobody"])
        tfs = [f for f in schema.fields if f.kind == "datetime"]
        if tfs and rng.random() < 0.12 and not want_clean:
            tf = rng.choice(tfs)
            vals = [v for v in data_values[tf.name] if v is not None] or [1700000000]
            t = rng.choice(vals) + rng.choice([0, 1, -1])
            q["since"] = (tf.name, t, rng.choice([json.dumps(str(t)), json.dumps(pred.iso(t))]))
        qs.append(q)
    if wide:
        clean2 = lambda f: (not f.optional) and f.kind in ("int", "u64", "enum", "datetime")
        for j, l in enumerate(wide_leaves(rng, schema, data_values)[:wide]):
            e = l
            if j % 3 == 1:
                e = pred.Bin("AND", l, pred.gen_leaf(rng, schema, data_values, clean2))
            qs.append({"expr": e, "ctx": rng.choice(ctxs) if j % 4 == 3 else None, "since": None})
    # a few predicate-free scoped queries
    qs.append({"expr": None, "ctx": ctxs[0], "since": None})
    qs.append({"expr": None, "ctx": None, "since": None})
    return qs


def render(q):
    s = "QUERY ev"
    if q["ctx"]:
        s += f" FOR {q['ctx']}"
    if q["since"]:
        s += f" SINCE {q['since'][2]} USING {q['since'][0]}"
    s += " RETURN [k]"
    if q["expr"] is not None:
        s += " WHERE " + q["expr"].render()
    return s


def reference(q, schema, events):
    """Returns (must, mustnot): k sets where the predicate is defined true / defined false."""
    must, mustnot = set(), set()
    for e in events:
        vals = []
        if q["ctx"] is not None:
            vals.append(e["ctx"] == q["ctx"])
        if q["since"]:
            v = e["payload"].get(q["since"][0])
            vals.append(None if v is None else v >= q["since"][1])
        if q["expr"] is not None:
            vals.append(pred.evaluate(q["expr"], schema, e["payload"]))
        if any(v is False for v in vals):
            mustnot.add(e["k"])
        elif all(v is True for v in vals):
            must.add(e["k"])
    return must, mustnot


def families(q, schema):
    """Feature families of a query that are named by open findings (see known_findings.json).
    A query with no family is in the clean partition: any discrepancy there is unlisted."""
    fam = []
    e = q["expr"]
    if e is None:
        return []
    for l in e.leaves():
        f = schema.by_name[l.field]
        if f.optional:
            fam.append("optional_field")
        if f.kind == "float" or l.lit_kind.startswith("float"):
            fam.append("float")
        if f.kind == "u64" and l.lit_kind == "int_negative":
            fam.append("u64_negative_literal")
        if f.kind == "string" and l.op in ("<", "<=", ">", ">="):
            fam.append("string_ordering")
    out = []
    for x in fam:
        if x not in out:
            out.append(x)
    return out


def sig_of(q, schema, tier, direction):
    fam = families(q, schema)
    base = _sig_of(q, schema, tier, direction)
    if fam:
        return {"partition": "dirty", "family": fam[0], "families": fam, "shape": base.get("shape")}
    base["partition"] = "clean"
    base["tier"] = tier
    return base


def _sig_of(q, schema, tier, direction):
    e = q["expr"]
    if e is None:
        return {"shape": "scope_only", "tier": tier, "direction": direction, "for": q["ctx"] is not None}
    leaves = e.leaves()
    classes = sorted({"/".join(l.cls(schema)) for l in leaves})
    if isinstance(e, (pred.Leaf, pred.In)):
        return {"shape": "leaf", "cls": classes[0], "direction": direction, "for": bool(q["ctx"])}
    if isinstance(e, pred.Not) and isinstance(e.a, (pred.Leaf, pred.In)):
        return {"shape": "not_leaf", "cls": classes[0], "direction": direction, "for": bool(q["ctx"])}
    conn = set()

    def walk(x):
        if isinstance(x, pred.Not):
            conn.add("NOT"); walk(x.a)
        elif isinstance(x, pred.Bin):
            conn.add(x.op); walk(x.a); walk(x.b)
    walk(e)
    return {"shape": "tree", "connectives": "+".join(sorted(conn)), "classes": classes,
            "direction": direction}


def history_task(task, wdir, res):
    import random
    rng = random.Random(task["seed"])
    dense = task.get("kind") == "dense"
    schema, events, cfg, ctxs, chunks = make_history(rng, dense)
    qs = build_queries(rng, schema, events, ctxs, task["nq"], wide=18 if dense else 4)
    setup = [schema.define_cmd()]
    stores = [gen.store_cmd("ev", e["ctx"], e["payload"]) for e in events]
    if chunks:
        # FLUSH between the chunks: one segment of >10 zones per shard and a few small ones
        at, out = 0, []
        for c in chunks[:-1]:
            out += stores[at:at + c] + ["FLUSH"]
            at += c
        stores = out + stores[at:]
    witness = {"seed": task["seed"], "config": cfg, "setup": setup, "stores": stores, "nq": task["nq"], "kind": task.get("kind")}
    res.count("tasks"); res.count("histories")
    res.sample({"config": gen.cfg_desc(cfg), "define": setup[0], "events": len(events), "queries": [render(q) for q in qs[:4]]})
    refs = [reference(q, schema, events) for q in qs]
    texts = [render(q) for q in qs]
    answers = {}  # qi -> {tier: frozenset}
    all_k = {e["k"] for e in events}

    def observe(tier, node):
        res.add_set("tiers", tier)
        present = all_k
        if tier == "recovered":
            # what a crash loses is C01's business: after SIGKILL the reference is restricted to the events the
            # recovered store still returns to the unfiltered query
            rp = node.cmd("QUERY ev RETURN [k]")
            if rp.rows is not None:
                present = {r.get("k") for r in rp.dicts()}
                res.count("recovered_events_lost_by_crash", len(all_k - present))
        for qi, q in enumerate(qs):
            rep = node.cmd(texts[qi])
            res.evaluations += 1
            must, mustnot = refs[qi]
            must = must & present
            if rep.kind == "panic":
                res.violation("query_panicked", {"tier": tier}, f"{texts[qi]}: {rep.message}", dict(witness, query=texts[qi], tier=tier))
                continue
            if not rep.ok or rep.rows is None:
                res.violation("query_failed", sig_of(q, schema, tier, "error"), f"{texts[qi]}: {rep!r} {rep.raw[:200]!r}",
                              dict(witness, query=texts[qi], tier=tier))
                continue
            ks = [r.get("k") for r in rep.dicts()]
            got = set(ks)
            if len(ks) != len(got):
                res.violation("duplicate_rows", {"tier": tier}, f"{texts[qi]}: {sorted(ks)}", dict(witness, query=texts[qi], tier=tier))
            answers.setdefault(qi, {})[tier] = frozenset(got)
            key = sig_of(q, schema, tier, "-")
            res.count("evaluations_" + key["partition"])
            if 0 < len(must) and len(mustnot) > 0:
                res.nontrivial((key.get("partition"), key.get("shape"), key.get("cls") or key.get("connectives") or key.get("family"), tier))
                res.count("nontrivial_" + key["partition"])
            fn = must - got
            fp = got & mustnot
            foreign = got - all_k
            w = dict(witness, query=texts[qi], tier=tier)
            if fn:
                res.violation("false_negative", sig_of(q, schema, tier, "false_negative"),
                              f"{texts[qi]} @ {tier}: missing k={sorted(fn)[:8]} (expected {len(must)} got {len(got)})", w)
            if fp:
                res.violation("false_positive", sig_of(q, schema, tier, "false_positive"),
                              f"{texts[qi]} @ {tier}: wrongly returned k={sorted(fp)[:8]} (expected {len(must)} got {len(got)})", w)
            if foreign:
                res.violation("foreign_row", {"tier": tier}, f"{texts[qi]} @ {tier}: {sorted(map(str, foreign))[:5]}", w)

    walk_tiers(wdir + "/a", cfg, setup, stores, observe)
    walk_crash(wdir + "/b", cfg, setup, stores, observe)
    # layout invariance for rows whose reference value is unspecified (the rest is already covered above)
    for qi, per in answers.items():
        must, mustnot = refs[qi]
        unspecified = all_k - must - mustnot
        if not unspecified:
            continue
        base_t, base = sorted(per.items())[0]
        for t, a in sorted(per.items()):
            d = (a ^ base) & unspecified
            if d:
                s = sig_of(qs[qi], schema, t, "layout")
                res.violation("layout_disagreement", s,
                              f"{texts[qi]}: tier {t} vs {base_t} differ on k={sorted(d)[:8]} (reference unspecified for these rows)",
                              dict(witness, query=texts[qi], tiers=[base_t, t]))
                break


def run(run):
    n = 16 if run.tier == "quick" else 400
    nq = 45 if run.tier == "quick" else 60
    tasks = [{"name": f"h{i}", "seed": run.rng("hist", i).getrandbits(48), "nq": nq} for i in range(n)]
    nd = 8 if run.tier == "quick" else 150
    tasks += [{"name": f"d{i}", "seed": run.rng("dense", i).getrandbits(48), "nq": 24, "kind": "dense"} for i in range(nd)]
    run.min_distinct = 30
    run.assumptions = ["reference semantics: numeric comparison for int/u64/float/datetime fields against numeric (or time) literals, "
                       "equality only for string/enum/bool; comparisons involving null/absent fields and string ordering are unspecified "
                       "and only checked for layout invariance"]
    run.parallel(history_task, tasks)
    if run.tier == "thorough" or os.environ.get("VERIF_MEMCHECK"):
        # sanitizer layer: a slice of the same histories under valgrind memcheck (filters, zone readers, SIMD scans)
        from .core import run_under_memcheck
        run_under_memcheck(run, history_task, [dict(t, name="mc-" + t["name"]) for t in tasks[:8] + tasks[-4:]], "C02 histories")


def replay(run, path):
    with open(path) as f:
        w = json.load(f)
    seed = (w.get("witness") or {}).get("seed")
    wit = w.get("witness") or {}
    run.parallel(history_task, [{"name": "replay", "seed": seed, "nq": wit.get("nq", 45), "kind": wit.get("kind")}], nproc=1)
