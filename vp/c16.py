"""C16 - a time value denotes the same instant on every path that reads or writes it.

Three monitors over the real engine (one process per configuration, the time zone is process-global):
  store : every spelling of an instant (ISO-8601 with any offset / fraction, epoch s / ms / us / ns, float seconds, numeric string)
          must be accepted and read back as floor(instant) seconds, in memory and from segments;
  query : SINCE <spelling> USING t and WHERE t <op> <ISO | epoch seconds> must select exactly the events whose *read-back* value
          satisfies the comparison with floor(literal) - relational, so a STORE-side defect does not leak in - and all spellings of one
          literal instant must select the same set;
  per   : PER HOUR/DAY/WEEK/MONTH/YEAR USING t bucket keys must be the start of the calendar unit in the configured zone / week start
          (python zoneinfo reference), including instants around DST transitions."""
import datetime
import json
import random
import zoneinfo

from . import gen
from .hist import Lifetimes, must_ok

RULE = ("history = 12-30 events whose datetime field is spelled as ISO-8601 (Z / arbitrary offset / fractional), integer epoch in s, ms, us, ns "
        "(only where the documented digit rule identifies the unit; both sides of every digit-count boundary), float seconds or numeric string, "
        "for instants that are recent, pre-1970, fractional, on minute/hour/day boundaries and next to DST transitions of the configured zone; "
        "read back in memory / L0 / compacted tiers; ~50 SINCE..USING and WHERE literals per history in every spelling x 6 operators; PER "
        "HOUR..YEAR under time zones UTC, US/Eastern, Asia/Kolkata, Pacific/Chatham, America/Havana x week start Mon/Sun (one process each); "
        "distinct_nontrivial counts distinct (monitor, spelling or operator or granularity, instant class, zone, tier) cells")

UTC = datetime.timezone.utc
OFFSETS = [(5, 30), (-8, 0), (13, 45), (0, -30), (14, 0), (-12, 0), (0, 0)]


def digits(n):
    return len(str(abs(n)))


def iso(s, frac_ms=0, off=None, frac_digits=3):
    """ISO-8601 text of the instant s + frac_ms/1000 (s = floor seconds)."""
    tz = UTC if off is None else datetime.timezone(datetime.timedelta(hours=off[0], minutes=off[1] if off[0] >= 0 else -abs(off[1])))
    if off is not None and off[0] == 0:
        tz = datetime.timezone(datetime.timedelta(minutes=off[1]))
    d = datetime.datetime.fromtimestamp(0, UTC) + datetime.timedelta(seconds=s)
    d = d.astimezone(tz)
    txt = d.strftime("%Y-%m-%dT%H:%M:%S")
    if d.year < 1000:
        txt = "%04d" % d.year + txt[txt.index("-"):]
    if frac_ms:
        txt += "." + ("%03d" % frac_ms)[:frac_digits].ljust(frac_digits, "0")
    if off is None:
        return txt + "Z"
    o = d.utcoffset()
    tot = int(o.total_seconds()) // 60
    return txt + ("+" if tot >= 0 else "-") + "%02d:%02d" % (abs(tot) // 60, abs(tot) % 60)


SPELLINGS = ["iso_z", "iso_offset", "iso_frac6", "epoch_s", "epoch_ms", "epoch_us", "epoch_ns", "float_s", "str_int"]


def spell(rng, s, frac_ms, how):
    """Returns (json value | None if this spelling cannot denote the instant unambiguously)."""
    if how == "iso_z":
        return iso(s, frac_ms)
    if how == "iso_offset":
        return iso(s, frac_ms, rng.choice(OFFSETS))
    if how == "iso_frac6":
        return iso(s, frac_ms or 1, None, 6) if frac_ms else iso(s, 0)
    if how == "epoch_s":
        return s if (frac_ms == 0 and digits(s) <= 11) else None
    if how == "str_int":
        return str(s) if (frac_ms == 0 and digits(s) <= 11) else None
    if how == "float_s":
        if abs(s) >= 2 ** 40:
            return None
        return float(s) + frac_ms / 1000.0 if frac_ms else float(s) + 0.0
    mult, lo, hi = {"epoch_ms": (1000, 12, 14), "epoch_us": (10 ** 6, 15, 16), "epoch_ns": (10 ** 9, 18, 19)}[how]
    v = s * mult + frac_ms * (mult // 1000)
    if not (lo <= digits(v) <= hi) or abs(v) >= 2 ** 63:
        return None
    return v


DOMAINS = ["era", "era", "era", "dst", "pre1970", "straddle0", "far_future", "mem_wide"]


def pick_base(rng, domain, tzname):
    """Centre of the history's time window. On-disk calendars enumerate every hour between a zone's min and max, so segment
    histories keep their instants within about two years; the magnitude classes are spread over histories instead."""
    if domain == "era":
        return rng.choice([rng.randint(100_000_000, 4_200_000_000), rng.randint(1_600_000_000, 1_800_000_000), 1_000_000_000, 999_999_999 + 86400])
    if domain == "dst":
        return rng.choice(DST_EDGES.get(tzname) or DST_EDGES["US/Eastern"])
    if domain == "pre1970":
        return -rng.randint(40_000_000, 2_000_000_000)
    if domain == "straddle0":
        return 0
    if domain == "far_future":
        return rng.choice([2 ** 32, 9_999_999_999, 10_000_000_000, 99_999_999_999 - 30_000_000, rng.randint(2 ** 32, 90_000_000_000)])
    return None


def domain_of(s):
    return "pre1970" if s < 0 else ("far_future" if s >= 2 ** 32 else "era")


def gen_instant(rng, tzname, domain="mem_wide", base=None):
    """(floor seconds, frac_ms, class)"""
    if domain != "mem_wide":
        r = rng.random()
        span = 30_000_000
        if r < 0.45:
            s, f, cls = base + rng.randint(-span, span), 0, "plain"
        elif r < 0.65:
            s, f, cls = base + rng.randint(-span, span), rng.choice([1, 250, 500, 999]), "fraction"
        elif r < 0.85:
            day = (base // 86400 + rng.randint(-300, 300)) * 86400
            s, f, cls = day + rng.choice([0, -1, 1, 3600, 3599, 86399, 59, 60]), 0, "unit_boundary"
        else:
            s, f, cls = base + rng.choice([-5400, -3601, -3600, -1800, -1, 0, 1, 1799, 1800, 3599, 3600, 5400, -86400, 86400]), 0, "next_to_base"
        if domain == "far_future":
            s = min(s, 99_999_999_999)
        return s, f, domain + ":" + cls
    r = rng.random()
    if r < 0.28:
        return rng.randint(1_600_000_000, 1_800_000_000), 0, "recent"
    if r < 0.42:
        return rng.randint(1_600_000_000, 1_800_000_000), rng.choice([1, 250, 500, 999]), "recent_fraction"
    if r < 0.52:
        base = rng.randint(18_000, 20_000) * 86400
        return base + rng.choice([0, -1, 1, 3600, 3599, 86399, 59, 60]), 0, "unit_boundary"
    if r < 0.62:
        return -rng.randint(1, 2_000_000_000), 0, "pre1970"
    if r < 0.70:
        return -rng.randint(100_000_001, 2_000_000_000), rng.choice([1, 500, 999]), "pre1970_fraction"
    if r < 0.82:
        return rng.choice([9_999_999_999, 10_000_000_000, 99_999_999_999, 999_999_999, 1_000_000_000, 100_000_000, 99_999_999,
                           99_999_999_999 // 1000, 100_000_000_000 // 1000]), 0, "digit_boundary"
    if r < 0.88:
        return rng.choice([0, 1, 59, 86400, 2 ** 31 - 1, 2 ** 31, 2 ** 32 - 1, 2 ** 32]), 0, "small_or_2pow"
    return dst_instant(rng, tzname), 0, "dst_edge"


DST_EDGES = {
    "US/Eastern": [1710054000, 1730613600, 1678604400, 1699164000],          # 2024-03-10 07:00Z, 2024-11-03 06:00Z, 2023 ...
    "Pacific/Chatham": [1727531100, 1712411100],                               # 2024-09-28 13:45Z (fwd), 2024-04-06 13:45Z (back)
    "America/Havana": [1710046800, 1730610000],                                # 2024-03-10 05:00Z (0:00 -> 1:00), 2024-11-03 05:00Z
    "Asia/Kolkata": [1704047400], "UTC": [1704067200],
}


def dst_instant(rng, tzname):
    e = rng.choice(DST_EDGES.get(tzname) or DST_EDGES["US/Eastern"])
    return e + rng.choice([-5400, -3601, -3600, -1800, -1, 0, 1, 1799, 1800, 3599, 3600, 5400, -86400, 86400])


# ---------------------------------------------------------------------------------------------------------- calendar reference
def local(ts, tz):
    return datetime.datetime.fromtimestamp(ts, tz)


def day_start(date, tz):
    """First instant whose local date is >= date (binary search; local dates are monotone in time)."""
    mid = int(datetime.datetime(date.year, date.month, date.day, tzinfo=UTC).timestamp())
    lo, hi = mid - 16 * 3600, mid + 16 * 3600
    while lo < hi:
        m = (lo + hi) // 2
        if local(m, tz).date() >= date:
            hi = m
        else:
            lo = m + 1
    return lo


def bucket_ref(ts, gran, tz, week_start):
    d = local(ts, tz)
    if gran == "HOUR":
        return ts - (d.minute * 60 + d.second)
    if gran == "DAY":
        return day_start(d.date(), tz)
    if gran == "WEEK":
        ws = 0 if week_start == "Mon" else 6
        back = (d.weekday() - ws) % 7
        return day_start(d.date() - datetime.timedelta(days=back), tz)
    if gran == "MONTH":
        return day_start(d.date().replace(day=1), tz)
    return day_start(d.date().replace(month=1, day=1), tz)


# ---------------------------------------------------------------------------------------------------------- the history
def lit_text(v):
    """SINCE takes a quoted literal in every spelling."""
    return json.dumps(v if isinstance(v, str) else (repr(v) if isinstance(v, float) else str(v)))


def history_task(task, wdir, res):
    rng = random.Random(task["seed"])
    tzname, week_start = task["tz"], task["week_start"]
    tz = zoneinfo.ZoneInfo(tzname)
    domain = task["domain"]
    centre = pick_base(rng, domain, tzname)
    cfg = gen.gen_config(rng, shards=(1, 2), zone=(1, 2, 4), fill=(2, 3, 50) if domain != "mem_wide" else (50,))
    cfg.update(timezone=tzname, week_start=week_start)
    n = rng.randint(12, 30)
    events = []
    for k in range(1, n + 1):
        for _ in range(20):
            s, f, cls = gen_instant(rng, tzname, domain, centre)
            how = rng.choice(SPELLINGS)
            v = spell(rng, s, f, how)
            if v is not None:
                break
        else:
            s, f, cls, how = 1_700_000_000 + k, 0, "recent", "epoch_s"
            v = s
        events.append({"k": k, "s": s, "f": f, "cls": cls, "how": how, "v": v, "ctx": f"c{rng.randint(0, 3)}"})
    witness = {"seed": task["seed"], "tz": tzname, "week_start": week_start, "config": cfg, "domain": domain,
               "events": [{x: e[x] for x in ("k", "s", "f", "cls", "how", "v")} for e in events]}
    res.count("tasks"); res.count("histories")
    res.sample({"tz": tzname, "week_start": week_start, "events": [(e["how"], e["v"]) for e in events[:5]]})
    doms = {domain_of(e["s"]) for e in events}
    data_domain = "+".join(sorted(doms))          # which magnitude classes share the segments of this history
    lt = Lifetimes(wdir, **cfg)
    node = lt.start()
    stored = {}        # k -> read-back value (first tier)
    accepted = set()
    try:
        must_ok(node.cmd('DEFINE ev FIELDS { k: "int", t: "datetime" }'), "define")
        for e in events:
            rep = node.cmd(gen.store_cmd("ev", e["ctx"], {"k": e["k"], "t": e["v"]}))
            res.evaluations += 1
            sig = {"monitor": "store", "spelling": e["how"], "instant": e["cls"]}
            if rep.kind == "panic":
                res.violation("store_panicked", sig, f"t={e['v']!r}: {rep.message}", dict(witness, event=e["k"]))
            elif not rep.ok:
                res.violation("valid_spelling_rejected", sig, f"STORE t={e['v']!r} ({e['how']} of {iso(e['s'], e['f'])}): {rep!r}", dict(witness, event=e["k"]))
            else:
                accepted.add(e["k"])

        class Abort(Exception):
            pass

        def ask(q, sig, w):
            """node.cmd with worker-panic attribution: a panic on a runtime worker thread leaves the reply empty or missing."""
            before = len(node.panics())
            try:
                rep = node.cmd(q, timeout=40)
            except Exception as ex:
                now = node.panics()
                if len(now) > before:
                    res.violation("query_hangs_after_worker_panic", sig, f"{q}: no reply within 40 s after {now[-1][:160]}", w)
                    raise Abort()
                raise
            now = node.panics()
            if len(now) > before:
                res.violation("worker_panicked", dict(sig, at=now[-1].split(" at=")[1].split(" ")[0].replace("/repo/", "")), f"{q}: {now[-1][:200]}", w)
                return None
            return rep

        def readback(tier):
            rep = node.cmd("QUERY ev RETURN [k, t]")
            if rep.rows is None:
                res.violation("readback_failed", {"monitor": "store", "tier": tier}, f"{rep!r}", witness)
                return {}
            got = {r.get("k"): r.get("t") for r in rep.dicts()}
            for e in events:
                if e["k"] not in accepted:
                    continue
                res.evaluations += 1
                sig = {"monitor": "store", "spelling": e["how"], "instant": e["cls"], "instant_domain": domain_of(e["s"]), "fraction": bool(e["f"])}
                res.nontrivial(("store", e["how"], e["cls"], tier))
                g = got.get(e["k"], "absent")
                if g != e["s"]:
                    res.violation("stored_instant_differs", dict(sig, direction=("absent" if g == "absent" else "value")),
                                  f"@{tier}: k={e['k']} stored as t={e['v']!r} ({e['how']} of {iso(e['s'], e['f'])} = {e['s']} s) reads back {g!r}",
                                  dict(witness, event=e["k"], tier=tier))
            return got

        def queries(tier):
            base = {k: v for k, v in stored.items() if isinstance(v, int)}
            if not base:
                return
            vals = sorted(set(base.values()))
            for qi in range(task["nq"]):
                # literal instant: a stored one, one next to it, or a fresh one
                r = rng.random()
                if r < 0.55:
                    s, f, cls = rng.choice(vals), 0, "stored_value"
                elif r < 0.75:
                    s, f, cls = rng.choice(vals) + rng.choice([-1, 1]), 0, "next_to_stored"
                elif r < 0.87:
                    s, f, cls = rng.choice(vals), rng.choice([1, 500, 999]), "stored_plus_fraction"
                else:
                    s, f, cls = gen_instant(rng, tzname, rng.choice(["mem_wide", domain]), centre)
                    cls = "fresh"
                if s < 0 and f:
                    cls = "negative_fraction"
                ldom = domain_of(s)
                if rng.random() < 0.5:
                    # SINCE in every applicable spelling: all must select { stored >= floor(literal) }
                    want = {k for k, v in base.items() if v >= s}
                    answers = {}
                    for how in SPELLINGS:
                        if how == "float_s":
                            continue
                        v = spell(rng, s, f, how)
                        if v is None:
                            continue
                        q = f"QUERY ev SINCE {lit_text(v)} USING t RETURN [k]"
                        res.evaluations += 1
                        sig = {"monitor": "since", "spelling": how, "instant": cls}
                        w = dict(witness, query=q, tier=tier)
                        rep = ask(q, sig, w)
                        if rep is None:
                            continue
                        if rep.kind == "panic":
                            res.violation("query_panicked", sig, f"{q}: {rep.message}", w)
                            continue
                        if rep.rows is None:
                            res.violation("valid_literal_rejected", sig, f"{q} @ {tier}: {rep!r}", w)
                            continue
                        got = {r.get("k") for r in rep.dicts()}
                        answers[how] = got
                        if 0 < len(want) < len(base):
                            res.nontrivial(("since", how, cls, tier))
                        if got != want:
                            res.violation("since_selects_wrong_set", dict(sig, direction=("missing" if want - got else "extra"), tier_kind=("mem" if tier == "mem" else "disk"),
                                               data_domain=data_domain, literal_domain=ldom),
                                          f"{q} @ {tier}: literal = {iso(s, f)} = {s} s; missing k={sorted(want - got)[:6]} extra k={sorted(got - want)[:6]}", w)
                else:
                    op = rng.choice(["=", "!=", "<", "<=", ">", ">="])
                    import operator as _o
                    fn = {"=": _o.eq, "!=": _o.ne, "<": _o.lt, "<=": _o.le, ">": _o.gt, ">=": _o.ge}[op]
                    want = {k for k, v in base.items() if fn(v, s)}
                    for how in ("iso_z", "iso_offset", "iso_frac6", "epoch_s"):
                        v = spell(rng, s, f, how)
                        if v is None:
                            continue
                        lit = json.dumps(v) if isinstance(v, str) else str(v)
                        q = f"QUERY ev WHERE t {op} {lit} RETURN [k]"
                        res.evaluations += 1
                        sig = {"monitor": "where", "op": op, "spelling": how, "instant": cls}
                        w = dict(witness, query=q, tier=tier)
                        rep = ask(q, sig, w)
                        if rep is None:
                            continue
                        if rep.kind == "panic":
                            res.violation("query_panicked", sig, f"{q}: {rep.message}", w)
                            continue
                        if rep.rows is None:
                            res.violation("valid_literal_rejected", sig, f"{q} @ {tier}: {rep!r}", w)
                            continue
                        got = {r.get("k") for r in rep.dicts()}
                        if 0 < len(want) < len(base):
                            res.nontrivial(("where", op, how, cls, tier))
                        if got != want:
                            res.violation("where_selects_wrong_set", dict(sig, direction=("missing" if want - got else "extra"), tier_kind=("mem" if tier == "mem" else "disk"),
                                                                           data_domain=data_domain, literal_domain=ldom),
                                          f"{q} @ {tier}: literal = {iso(s, f)} = {s} s; missing k={sorted(want - got)[:6]} extra k={sorted(got - want)[:6]}", w)

        def per(tier):
            base = {k: v for k, v in stored.items() if isinstance(v, int)}
            for gran in ("HOUR", "DAY", "WEEK", "MONTH", "YEAR"):
                q = f"QUERY ev COUNT PER {gran} USING t"
                res.evaluations += 1
                w = dict(witness, query=q, tier=tier)
                sig0 = {"monitor": "per", "gran": gran, "tz": tzname, "week_start": week_start, "data_domain": data_domain}
                rep = ask(q, sig0, w)
                if rep is None:
                    continue
                if rep.kind == "panic":
                    res.violation("query_panicked", sig0, f"{q}: {rep.message}", w)
                    continue
                if rep.rows is None:
                    res.violation("per_failed", sig0, f"{q} @ {tier}: {rep!r}", w)
                    continue
                got = {}
                for row in rep.rows:
                    got[row[0]] = got.get(row[0], 0) + row[1]
                want, cls_of = {}, {}
                for k, v in base.items():
                    try:
                        b = bucket_ref(v, gran, tz, week_start)
                    except (OverflowError, ValueError, OSError):
                        b = "out_of_range"
                    want[b] = want.get(b, 0) + 1
                    cls_of.setdefault(b, set()).add(next(e["cls"] for e in events if e["k"] == k))
                for b in sorted(set(want) | set(got), key=str):
                    if b == "out_of_range":
                        continue
                    classes = cls_of.get(b, {"none"})
                    icl = "null_bucket" if b is None else ("pre1970" if b < 0 else ("far_future" if b >= 2 ** 32 else
                                                                      ("dst" if any(c.startswith("dst") for c in classes) else "ordinary")))
                    if isinstance(b, int) and b >= 2_100_000_000 and tzname not in ("UTC", "Asia/Kolkata"):
                        continue       # beyond the tz database's explicit transitions the two libraries extrapolate differently
                    res.nontrivial(("per", gran, tzname, week_start, icl, tier))
                    if got.get(b) != want.get(b):
                        res.violation("per_bucket_differs", dict(sig0, instant=icl),
                                      f"{q} @ {tier} [{tzname}/{week_start}]: bucket {b} ({iso(b) if isinstance(b, int) and abs(b) < 10 ** 11 else b}) "
                                      f"count {got.get(b)} expected {want.get(b)}; answer buckets {sorted(got, key=str)[:8]}", w)

        try:
            node.syncflush()
            st = node.meta("state")
            tier = "mixed" if any(sh["live"] or sh["inflight"] for sh in st) else "mem"
            stored.update(readback(tier)); queries(tier); per(tier)
            if domain == "mem_wide":
                raise Abort()          # magnitude mix: memory tier only (see pick_base)
            must_ok(node.cmd("FLUSH", timeout=120), "FLUSH"); node.syncflush()
            readback("flush"); queries("flush"); per("flush")
            if task.get("deep"):
                lt.compact_all(1)
                readback("c1"); queries("c1"); per("c1")
        except Abort:
            node.kill()
    finally:
        lt.stop()


ZONES = ["UTC", "US/Eastern", "Asia/Kolkata", "Pacific/Chatham", "America/Havana"]


def run(run):
    quick = run.tier == "quick"
    n = 40 if quick else 640
    tasks = []
    for i in range(n):
        r = run.rng("cfg", i)
        domain = DOMAINS[i % len(DOMAINS)]
        tzname = r.choice(["US/Eastern", "Pacific/Chatham", "America/Havana"]) if domain == "dst" else r.choice(ZONES)
        tasks.append({"name": f"h{i}", "seed": run.rng("h", i).getrandbits(44), "nq": 10 if quick else 16, "deep": i % 3 == 0,
                      "tz": tzname, "week_start": r.choice(["Mon", "Sun"]), "domain": domain})
    run.min_distinct = 40
    run.assumptions = ["reference: floor to whole seconds for every spelling (ISO-8601 semantics); an integer spelling is asserted only where the "
                       "documented digit rule identifies its unit (<=11 digits s, 12-14 ms, 15-16 us, 18-19 ns)",
                       "query monitors compare with the values read back from the store (relational), so store-side findings do not leak in",
                       "HOUR bucket reference = instant minus the local minutes and seconds; DAY/WEEK/MONTH/YEAR = first instant of the local date"]
    run.parallel(history_task, tasks)


def replay(run, path):
    with open(path) as f:
        w = json.load(f)["witness"]
    run.parallel(history_task, [{"name": "replay", "seed": w["seed"], "nq": 10, "deep": True, "tz": w["tz"], "week_start": w["week_start"], "domain": w.get("domain", "era")}], nproc=1)
