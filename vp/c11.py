"""C11 - published segments are immutable and appear / disappear as a whole (file-system monitor over
the crash histories of C01/C05)."""
import json
import random

from . import crash as C
from .hist import Lifetimes, must_ok
from .node import NodeDied

RULE = ("the C01 history templates (incl. restart after compaction emptied L0, empty flushes, crash leftovers) are replayed with an @fs "
        "observation (every file of every shard: size, mtime_ns, inode, sha256; decoded segments.idx; live list) after every command, "
        "at every flush/compaction step point (hook snapshots) and after every crash + restart; monitor: (i) files of a published "
        "segment never change/appear/disappear while it stays published, (ii) a directory that existed unpublished at start-up never "
        "becomes published later (ids are fresh), (iii) every segment named by the live list or the index has its .zones/.idx/.icx "
        "and core column files; plus multi-type histories (three event types in different subsets of segments, several compaction "
        "batches with different inputs per round) where every step-point snapshot also carries the decoded on-disk index, so a segment "
        "published and touched again inside one compaction command is seen; distinct_nontrivial counts distinct (template, crash "
        "point | 'nocrash') runs with >=1 published segment")

CORE_COLS = ("context_id", "event_id", "event_type", "timestamp")


def seg_files(files, seg):
    out = {}
    pre = seg + "/"
    for f in files:
        if f.get("d"):
            continue
        if f["p"].startswith(pre):
            out[f["p"][len(pre):]] = (f["s"], f.get("h"), f["i"], f["m"])
    return out


class Monitor:
    def __init__(self, res, sig, witness):
        self.res, self.sig, self.witness = res, sig, witness
        self.pub = {}        # (shard, seg) -> manifest at first publication
        self.pub_sizes = {}  # (shard, seg) -> {file: size} at the first step point at which the on-disk index named it
        self.step_published = 0
        self.leftover = {}   # shard -> set of unpublished non-empty dirs seen at start-up
        self.obs = 0
        self.published_ever = 0
        self.index_missing_startup = False   # a shard started with segment directories but no segments.idx
        self.index_seen = set()              # shards for which some observation decoded a segments.idx

    def v(self, rule, extra, detail):
        self.res.violation(rule, dict(self.sig, after_index_missing_startup=self.index_missing_startup, **extra), detail, self.witness)

    def at_startup(self, snap):
        for sh in snap:
            named = self._named(sh)
            dirs = {f["p"] for f in sh["files"] if f.get("d") and f["p"].isdigit()}
            nonempty = {d for d in dirs if seg_files(sh["files"], d)}
            if dirs and sh["index"] is None:
                if sh["shard"] in self.index_seen:
                    # the index is replaced by one rename: a shard that had an index keeps having one, whatever the crash point
                    self.v("segment_index_vanished", {"where_kind": "startup"},
                           f"shard {sh['shard']}: segments.idx existed earlier in this history and is missing at start-up "
                           f"(directories {sorted(dirs)[:8]}, files {sorted(f['p'] for f in sh['files'] if '/' not in f['p'])[:6]})")
                else:
                    self.index_missing_startup = True
            self.leftover[sh["shard"]] = nonempty - named
            # what the restarted process names must be complete (checked by observe) and unchanged since before
        self.observe(snap, "startup")

    @staticmethod
    def _named(sh):
        idx = sh["index"] if isinstance(sh["index"], list) else []
        return set(sh["live"]) | {"%05d" % e["id"] for e in idx}

    def observe(self, snap, where):
        self.obs += 1
        for sh in snap:
            s = sh["shard"]
            idx = sh["index"] if isinstance(sh["index"], list) else []
            if isinstance(sh["index"], list):
                self.index_seen.add(s)
            if isinstance(sh["index"], dict) and "error" in sh["index"]:
                self.v("index_unreadable", {"where_kind": where.split(":")[0]}, f"shard {s} at {where}: {sh['index']}")
            idx_map = {"%05d" % e["id"]: e["uids"] for e in idx}
            named = set(sh["live"]) | set(idx_map)
            for seg in sorted(named):
                files = seg_files(sh["files"], seg)
                # (iii) completeness
                uids = idx_map.get(seg)
                if not files:
                    self.v("named_segment_missing", {"named_by": "live" if seg in sh["live"] else "index", "where_kind": where.split(":")[0]},
                           f"shard {s} at {where}: segment {seg} named but has no files (live={sh['live']} index={sorted(idx_map)})")
                    continue
                for uid in (uids or sorted({n.split(".")[0] for n in files if n.endswith(".zones")})):
                    missing = [x for x in (f"{uid}.zones", f"{uid}.idx", f"{uid}.icx") if x not in files]
                    missing += [f"{uid}_{c}.{ext}" for c in CORE_COLS for ext in ("col", "zfc") if f"{uid}_{c}.{ext}" not in files]
                    empty = [n for n in (f"{uid}.zones", f"{uid}.idx") if n in files and files[n][0] == 0]
                    if missing or empty:
                        self.v("named_segment_incomplete", {"named_by": "live" if seg in sh["live"] else "index", "where_kind": where.split(":")[0]},
                               f"shard {s} at {where}: segment {seg} uid {uid} missing={missing[:6]} empty={empty}")
                if seg in sh["live"] and seg not in idx_map:
                    self.v("live_segment_not_indexed", {"where_kind": where.split(":")[0]}, f"shard {s} at {where}: live {seg} not in index {sorted(idx_map)}")
                # (ii) freshness
                if seg in self.leftover.get(s, set()):
                    self.v("published_into_preexisting_directory", {"where_kind": where.split(":")[0]},
                           f"shard {s} at {where}: directory {seg} existed unpublished at start-up and is now named")
                    self.leftover[s].discard(seg)
                # (i) immutability
                key = (s, seg)
                man = {n: (v[0], v[1]) for n, v in files.items()}
                if key not in self.pub:
                    seen = self.pub_sizes.get(key)
                    if seen is not None:
                        now = {n: v[0] for n, v in man.items()}
                        if now != seen:
                            changed = sorted(n for n in set(seen) | set(now) if seen.get(n) != now.get(n))
                            self.v("published_segment_changed", {"change": "after_step_point", "where_kind": where.split(":")[0]},
                                   f"shard {s} at {where}: segment {seg} differs from what it held when the index first named it: {changed[:6]}")
                    self.pub[key] = man
                    self.published_ever += 1
                else:
                    old = self.pub[key]
                    if man != old:
                        changed = sorted(n for n in set(old) | set(man) if old.get(n) != man.get(n))
                        kinds = {"added" if n not in old else "removed" if n not in man else "modified" for n in changed}
                        self.v("published_segment_changed", {"change": "+".join(sorted(kinds)), "where_kind": where.split(":")[0]},
                               f"shard {s} at {where}: segment {seg}: {changed[:6]}")
                        self.pub[key] = man
            for key in [k for k in self.pub if k[0] == s and k[1] not in named]:
                del self.pub[key]    # retired as a whole (files may now go away)
            for key in [k for k in self.pub_sizes if k[0] == s and k[1] not in named]:
                del self.pub_sizes[key]

    def hook_snaps(self, snaps, where):
        """Manifests recorded by the hook at step points (no hash): published segments' sizes / inodes must not change."""
        for sn in snaps:
            per_shard = {}
            for f in sn["files"]:
                if f.get("d"):
                    continue
                parts = f["p"].split("/")
                if len(parts) == 3 and parts[0].startswith("shard-") and parts[1].isdigit():
                    per_shard.setdefault((int(parts[0][6:]), parts[1]), {})[parts[2]] = f["s"]
            self.obs += 1
            # the segments the on-disk index named before and after the directory walk of this snapshot
            named_by_shard = {}
            ia, ib = sn.get("index") or {}, sn.get("index_before") or {}
            for sid, entries in ia.items():
                eb = ib.get(sid)
                if isinstance(entries, list) and isinstance(eb, list):
                    named_by_shard[int(sid)] = {"%05d" % e["id"] for e in entries} & {"%05d" % e["id"] for e in eb}
            for key, old in self.pub.items():
                cur = per_shard.get(key)
                if cur is None:
                    continue   # retirement in progress is judged at the next command boundary
                if key[0] in named_by_shard and key[1] not in named_by_shard[key[0]]:
                    continue   # retired: the reclaim task may be moving the directory while the snapshot walks it
                diff = sorted(n for n in set(old) | set(cur) if (old.get(n) or (None,))[0] != cur.get(n))
                if diff:
                    self.v("published_segment_changed", {"change": "at_step_point", "where_kind": "hook"},
                           f"at {sn['point']} ({where}): shard {key[0]} segment {key[1]}: {diff[:6]}")
            # segments that the on-disk index names at this step point (publication inside one command)
            for sid, named_now in named_by_shard.items():
                for key in [k for k in self.pub_sizes if k[0] == sid and k[1] not in named_now]:
                    del self.pub_sizes[key]
                for seg in named_now:
                    key = (sid, seg)
                    cur = per_shard.get(key)
                    if cur is None or key in self.pub:
                        continue
                    old = self.pub_sizes.get(key)
                    if old is None:
                        self.pub_sizes[key] = dict(cur)
                        self.step_published += 1
                    elif old != cur:
                        diff = sorted(n for n in set(old) | set(cur) if old.get(n) != cur.get(n))
                        kinds = {"added" if n not in old else "removed" if n not in cur else "modified" for n in diff}
                        self.v("published_segment_changed", {"change": "at_step_point:" + "+".join(sorted(kinds)), "where_kind": "hook"},
                               f"at {sn['point']} ({where}): shard {sid} segment {seg} was named by the index at an earlier step point "
                               f"and changed since: {diff[:6]}")
                        self.pub_sizes[key] = dict(cur)


def history_task(task, wdir, res):
    from .c01 import make_history
    cfg, ops = make_history(task["tmpl"], task["seed"], False)
    crash = None if task["point"] is None else {"point": task["point"], "nth": task["nth"]}
    lt = Lifetimes(wdir, **cfg)
    res.count("tasks")
    witness = {"template": task["tmpl"], "seed": task["seed"], "config": cfg, "crash": crash,
               "ops": [C.store_text(o) if o["op"] == "store" else o["op"] for o in ops]}
    sig = {"template": task["tmpl"], "group": C.point_group(task["point"]) if task["point"] else "nocrash"}
    mon = Monitor(res, sig, witness)
    rng = random.Random(task["seed"] ^ 0x5a5a)
    use_hook_snaps = task.get("hook_snaps", False)

    def on_step(i, op, node):
        if use_hook_snaps and op["op"] in ("flush", "compact"):
            mon.hook_snaps(node.meta("snap take")["snaps"], f"op {i} {op['op']}")
        if op["op"] in ("flush", "compact", "restart_clean", "restart_kill", "syncflush") or rng.random() < 0.5:
            if op["op"] in ("restart_clean", "restart_kill"):
                mon.at_startup(node.meta("fs hash"))
            else:
                mon.observe(node.meta("fs hash"), f"cmd:{i}:{op['op']}")

    try:
        # arm the snapshot hook through the first command of the player: use env-free route (meta after start)
        ops2 = list(ops)
        pl = C.play(lt, ops2, crash=crash, on_step=(lambda i, op, node: (node.meta("snap on fl.,fr.,zw.,idx.,wc.,cw.,mc.,ho.,rc.") if (use_hook_snaps and i == 0) else None, on_step(i, op, node))[1]))
        fired = pl.fired or task["point"] in (None, "kill")
        node = lt.start()
        mon.at_startup(node.meta("fs hash"))
        # keep going after the crash: flush the recovered data, compact, store again
        node.cmd("FLUSH", timeout=60); node.syncflush()
        mon.observe(node.meta("fs hash"), "cmd:post:flush")
        lt.compact_all(1)
        import time
        time.sleep(0.15)
        mon.observe(node.meta("fs hash"), "cmd:post:compact")
        node = lt.restart_clean()
        mon.at_startup(node.meta("fs hash"))
        res.evaluations += mon.obs
        res.count("observations", mon.obs)
        res.count("segments_published", mon.published_ever)
        if mon.published_ever and fired:
            res.nontrivial((task["tmpl"], task["point"] or "nocrash"))
            res.add_set("points_fired", task["point"] or "nocrash")
        res.sample({"template": task["tmpl"], "config": cfg, "crash": crash, "observations": mon.obs, "segments_published": mon.published_ever})
    finally:
        lt.stop()


def multitype_task(task, wdir, res):
    """Several event types living in different subsets of segments: one compaction round plans several batches with different
    input sets on the same level; every step point of the round is a (size-level) observation of what the index names."""
    import time
    from . import c05
    rng = random.Random(task["seed"])
    cfg = c05.gen_cfg(rng)
    steps, ctxs, k = c05.build_history(rng, cfg)
    lt = Lifetimes(wdir, **cfg)
    node = lt.start()
    res.count("tasks")
    witness = {"mode": "multitype", "seed": task["seed"], "config": cfg, "steps": steps}
    sig = {"template": "multitype", "group": "nocrash"}
    mon = Monitor(res, sig, witness)
    try:
        for d in c05.TYPES.values():
            must_ok(node.cmd(d), "define")
        node.meta("snap on fl.,fr.,zw.,idx.,wc.,cw.,mc.,ho.,rc.")
        for i, st in enumerate(steps):
            c05.apply_steps(node, [st])
            if st[0] == "flush":
                mon.hook_snaps(node.meta("snap take")["snaps"], f"step {i} flush")
                mon.observe(node.meta("fs hash"), f"cmd:{i}:flush")
        rounds = 0
        for rnd in range(4):
            results = lt.compact_all(1)
            time.sleep(0.15)
            nplans = sum(r.get("plans", 0) for r in results)
            mon.hook_snaps(node.meta("snap take")["snaps"], f"round {rnd}")
            mon.observe(node.meta("fs hash"), f"cmd:round{rnd}:compact")
            if not nplans:
                break
            rounds += 1
            res.add_set("round_shapes", f"{cfg['segments_per_merge']}:{min(nplans, 6)}")
            extra = []
            for _ in range(rng.randint(0, 3)):
                k += 1; extra.append(("store", rng.choice(["ta", "tb", "tc"]), rng.choice(ctxs), k))
            if extra:
                extra.append(("flush",))
                c05.apply_steps(node, extra)
                mon.hook_snaps(node.meta("snap take")["snaps"], f"after round {rnd} flush")
                mon.observe(node.meta("fs hash"), f"cmd:round{rnd}:flush")
        node.meta("snap off")
        node = lt.restart_clean()
        mon.at_startup(node.meta("fs hash"))
        res.evaluations += mon.obs
        res.count("observations", mon.obs)
        res.count("segments_published", mon.published_ever)
        res.count("segments_first_seen_at_step_point", mon.step_published)
        if rounds:
            res.nontrivial(("multitype", gen_desc(cfg), rounds))
        res.sample({"mode": "multitype", "config": cfg, "rounds": rounds, "observations": mon.obs, "step_published": mon.step_published})
    finally:
        lt.stop()


def gen_desc(cfg):
    return "s%d/z%d/f%d/m%d" % (cfg["shard_count"], cfg["event_per_zone"], cfg["fill_factor"], cfg["segments_per_merge"])


def overlap_task(task, wdir, res):
    """A flush's index update overlapping a compaction hand-over on the same shard (one of them parked at a step point)."""
    import time
    from . import gen
    from .hist import must_ok
    rng = random.Random(task["seed"])
    cfg = dict(shard_count=1, event_per_zone=rng.choice([1, 2]), fill_factor=rng.choice([2, 3]), segments_per_merge=2)
    cap = cfg["event_per_zone"] * cfg["fill_factor"]
    lt = Lifetimes(wdir, **cfg)
    node = lt.start()
    res.count("tasks")
    parked_side, point = task["side"], task["point"]
    witness = {"mode": "overlap", "seed": task["seed"], "config": cfg, "parked": [parked_side, point], "restart": task.get("restart", "clean")}
    sig = {"template": "overlap_" + parked_side, "group": point.split(".")[0]}
    mon = Monitor(res, sig, witness)
    try:
        must_ok(node.cmd(C.DEFINE), "define")
        k = 0
        for seg in range(2):
            for _ in range(cap):
                k += 1
                must_ok(node.cmd(gen.store_cmd("ev", f"c{k % 3}", {"k": k, "v": f"val-{k}"})), "store")
            node.syncflush()
        mon.observe(node.meta("fs hash"), "cmd:pre")

        def rotate():
            nonlocal k
            for _ in range(cap):
                k += 1
                must_ok(node.cmd(gen.store_cmd("ev", f"c{k % 3}", {"k": k, "v": f"val-{k}"})), "store")
            node.meta("barrier")

        node.meta(f"arm {point} 1 pause")
        if parked_side == "handover":
            node.meta("compactbg 0")
            if not node.meta(f"waitparkedat {point} 5000").get("ok"):
                res.count("point_not_reached"); node.meta("release"); node.meta("disarm")
                return
            before = node.meta("counts")["counts"].get("fr.before_index", 0)
            rotate()                                   # auto-flush runs into the index update while the hand-over is parked
            for _ in range(300):
                if node.meta("counts")["counts"].get("fr.before_index", 0) > before:
                    break
                time.sleep(0.01)
            time.sleep(0.05)
            node.meta(f"disarmpoint {point}"); node.meta(f"release {point}")
        else:
            rotate()
            if not node.meta(f"waitparkedat {point} 5000").get("ok"):
                res.count("point_not_reached"); node.meta("release"); node.meta("disarm")
                return
            node.meta("compactbg 0")                   # compaction runs into the hand-over while the flush is parked
            time.sleep(0.25)
            node.meta(f"disarmpoint {point}"); node.meta(f"release {point}")
        node._send("@wait compact-0 30000")
        kind, body = node._read_frame(60)
        witness["compaction"] = body.decode("utf-8", "replace")[:500]
        node.syncflush()
        time.sleep(0.2)
        mon.observe(node.meta("fs hash"), "cmd:after_overlap")
        rows_before = sorted(r.get("k") for r in node.cmd("QUERY ev RETURN [k]").dicts())
        node = lt.restart_kill() if task.get("restart") == "kill" else lt.restart_clean()
        mon.at_startup(node.meta("fs hash"))
        rows_after = sorted({r.get("k") for r in node.cmd("QUERY ev RETURN [k]").dicts()} |
                            {r.get("k") for c_ in range(3) for r in node.cmd(f"REPLAY ev FOR c{c_}").dicts()})
        if rows_after != list(range(1, k + 1)):
            missing = sorted(set(range(1, k + 1)) - set(rows_after))
            res.violation("rows_lost_after_overlap", dict(sig, restart=task.get("restart", "clean")),
                          f"after restart: missing k={missing[:10]} (before restart {len(rows_before)} rows)", witness)
        res.evaluations += mon.obs
        res.nontrivial(("overlap", parked_side, point))
        res.add_set("points_fired", f"overlap:{parked_side}:{point}")
        res.sample({"mode": "overlap", "parked": [parked_side, point], "config": cfg, "compaction": witness["compaction"][:120]})
    finally:
        lt.stop()


def dry_task(task, wdir, res):
    from .c01 import make_history
    cfg, ops = make_history(task["tmpl"], task["seed"], False)
    lt = Lifetimes(wdir, **cfg)
    try:
        pl = C.play(lt, ops, crash=None, trace=True)
    finally:
        lt.stop()
    res.count("tasks")
    pts = C.enumerate_points(pl.trace or [])
    res.add_set("plan", json.dumps([task["tmpl"], task["seed"], sorted(pts.items())]))


def run(run):
    quick = run.tier == "quick"
    reps = 1 if quick else 4
    dry = [{"name": f"dry-{t}-{r}", "tmpl": t, "seed": run.rng("h", t, r).getrandbits(40)} for t in C.TEMPLATES for r in range(reps)]
    run.parallel(dry_task, dry)
    plans = [json.loads(x) for x in run.result.sets.pop("plan", set())]
    tasks = []
    for tmpl, seed, pts in sorted(plans):
        tasks.append({"name": f"{tmpl}-nocrash", "tmpl": tmpl, "seed": seed, "point": None, "nth": 0, "hook_snaps": True})
        tasks.append({"name": f"{tmpl}-kill", "tmpl": tmpl, "seed": seed, "point": "kill", "nth": 0})
        for point, count in pts:
            if point.split(".")[0] in ("ins", "wal") and not point.startswith("wal.rot"):
                continue   # no file of a segment directory is touched there; covered by C01
            for n in sorted({1, count}):
                tasks.append({"name": f"{tmpl}-{point}-{n}", "tmpl": tmpl, "seed": seed, "point": point, "nth": n})
    run.min_distinct = 30
    run.assumptions = ["sha256 + size of every file under cols/shard-N/<segment>/ is the identity of a published segment",
                       "completeness = .zones/.idx/.icx and the four core column .col/.zfc files per uid present and non-empty "
                       "(optional payload fields legitimately have no column file)"]
    run.parallel(history_task, tasks)
    otasks = []
    for rep in range(1 if quick else 4):
        for side, pts in (("handover", ["ho.before_lock", "ho.locked", "ho.before_save", "ho.saved"]),
                          ("flush", ["fr.before_index", "idx.tmp_written", "idx.renamed", "fr.index_added", "fl.verified", "fl.published"])):
            for pnt in pts:
                otasks.append({"name": f"ov-{side}-{pnt}-{rep}", "seed": run.rng("ov", side, pnt, rep).getrandbits(40), "side": side, "point": pnt})
    run.parallel(overlap_task, otasks)
    nm = 12 if quick else 160
    run.parallel(multitype_task, [{"name": f"mt{i}", "seed": run.rng("mt", i).getrandbits(40)} for i in range(nm)])


def replay(run, path):
    with open(path) as f:
        w = json.load(f)["witness"]
    if w.get("mode") == "multitype":
        run.parallel(multitype_task, [{"name": "replay", "seed": w["seed"]}], nproc=1)
        return
    if w.get("mode") == "overlap":
        run.parallel(overlap_task, [{"name": "replay", "seed": w["seed"], "side": w["parked"][0], "point": w["parked"][1], "restart": w.get("restart", "clean")}], nproc=1)
        return
    c = w.get("crash") or {}
    run.parallel(history_task, [{"name": "replay", "tmpl": w["template"], "seed": w["seed"], "point": c.get("point"), "nth": c.get("nth", 0)}], nproc=1)
