//! C19 direct monitor: the flush worker's WAL cleanup call (`WalCleaner::new(shard).cleanup_up_to(n)`) in conservative mode
//! over generated WAL directories and archive-side faults; one plan = one shard id of this process (CONFIG is process-global).
//! input: {"wal_root":..., "archive_root":..., "plans":[{"shard":n, "files":[{"id":n,"entries":[{ts,ctx,type,payload,event_id}],
//!          "torn":str|null,"blank_lines":bool}], "passes":[{"keep_from":n, "pre":[fs ops], "hook_fail":[ids]}]}]}
//! fs ops: {"op":"mkdir","path":rel} {"op":"write","path":rel,"content":str} {"op":"write_valid_archive","path":rel,"log_id":n,"entries":[..]}
//!         {"op":"rm","path":rel} {"op":"archive_root_file"} {"op":"archive_root_restore"}   (rel is relative to the shard's archive dir)
//! output per plan and pass: listing of both directories, what recover_all / per-archive recovery returns.
use serde_json::{Value, json};
use snel_db::engine::core::wal::wal_archive::{WalArchive, WalArchiveBody, WalArchiveHeader};
use snel_db::engine::core::wal::wal_archive_recovery::WalArchiveRecovery;
use snel_db::engine::core::{EventId, WalCleaner, WalEntry};
use std::io::Write;
use std::path::{Path, PathBuf};
use verif_harness::hooks;

fn entry_of(v: &Value) -> WalEntry {
    let mut e = WalEntry {
        timestamp: v["ts"].as_u64().unwrap_or(0),
        context_id: v["ctx"].as_str().unwrap_or("").to_string(),
        event_type: v["type"].as_str().unwrap_or("").to_string(),
        payload: Default::default(),
        event_id: EventId::from_raw(v["event_id"].as_u64().unwrap_or(0)),
    };
    e.set_payload_json(v["payload"].clone());
    e
}

fn entry_json(e: &WalEntry) -> Value {
    json!({"ts": e.timestamp, "ctx": e.context_id, "type": e.event_type, "payload": e.payload_as_json(), "event_id": e.event_id.raw()})
}

fn listing(dir: &Path) -> Value {
    let mut out: Vec<Value> = Vec::new();
    if let Ok(rd) = std::fs::read_dir(dir) {
        for e in rd.flatten() {
            let md = e.metadata().ok();
            out.push(json!({"name": e.file_name().to_string_lossy(), "dir": md.as_ref().map(|m| m.is_dir()).unwrap_or(false),
                            "size": md.as_ref().map(|m| m.len()).unwrap_or(0)}));
        }
    } else if dir.is_file() {
        return json!("not_a_directory");
    } else {
        return Value::Null;
    }
    out.sort_by(|a, b| a["name"].as_str().cmp(&b["name"].as_str()));
    Value::Array(out)
}

fn apply_fs(op: &Value, arch_dir: &Path, arch_root: &Path, shard: usize) {
    let rel = op["path"].as_str().unwrap_or("");
    match op["op"].as_str().unwrap_or("") {
        "mkdir" => {
            let p = arch_dir.join(rel);
            if p.is_file() {
                let _ = std::fs::remove_file(&p);
            }
            let _ = std::fs::create_dir_all(p);
        }
        "write" => {
            let _ = std::fs::create_dir_all(arch_dir);
            let _ = std::fs::write(arch_dir.join(rel), op["content"].as_str().unwrap_or("").as_bytes());
        }
        "write_valid_archive" => {
            let _ = std::fs::create_dir_all(arch_dir);
            let entries: Vec<WalEntry> = op["entries"].as_array().map(|a| a.iter().map(entry_of).collect()).unwrap_or_default();
            let start = entries.iter().map(|e| e.timestamp).min().unwrap_or(0);
            let end = entries.iter().map(|e| e.timestamp).max().unwrap_or(0);
            let header = WalArchiveHeader::new(shard, op["log_id"].as_u64().unwrap_or(0), entries.len() as u64, start, end, "zstd".to_string(), 3);
            let arch = WalArchive { header, body: WalArchiveBody::new(entries) };
            if let Ok(bytes) = arch.to_compressed_bytes() {
                let cut = op["truncate_to"].as_u64().map(|n| (n as usize).min(bytes.len())).unwrap_or(bytes.len());
                let _ = std::fs::write(arch_dir.join(rel), &bytes[..cut]);
            }
        }
        "rm" => {
            let p = arch_dir.join(rel);
            if p.is_dir() {
                let _ = std::fs::remove_dir_all(&p);
            } else {
                let _ = std::fs::remove_file(&p);
            }
        }
        "archive_root_file" => {
            // the shard's archive directory path is occupied by a regular file (ENOTDIR / EEXIST for create_dir_all)
            let _ = std::fs::remove_dir_all(arch_dir);
            let _ = std::fs::create_dir_all(arch_root);
            let _ = std::fs::write(arch_dir, b"not a directory");
        }
        "archive_root_restore" => {
            if arch_dir.is_file() {
                let _ = std::fs::remove_file(arch_dir);
            }
        }
        _ => {}
    }
}

pub fn run(input: &Value) -> Value {
    hooks::install();
    let wal_root = PathBuf::from(input["wal_root"].as_str().unwrap_or(""));
    let arch_root = PathBuf::from(input["archive_root"].as_str().unwrap_or(""));
    let mut out_plans = Vec::new();
    let empty = Vec::new();
    for plan in input["plans"].as_array().unwrap_or(&empty) {
        let shard = plan["shard"].as_u64().unwrap_or(0) as usize;
        let wal_dir = wal_root.join(format!("shard-{}", shard));
        let arch_dir = arch_root.join(format!("shard-{}", shard));
        let _ = std::fs::remove_dir_all(&wal_dir);
        if arch_dir.is_file() {
            let _ = std::fs::remove_file(&arch_dir);
        }
        let _ = std::fs::remove_dir_all(&arch_dir);
        let _ = std::fs::create_dir_all(&wal_dir);
        for f in plan["files"].as_array().unwrap_or(&empty) {
            let id = f["id"].as_u64().unwrap_or(0);
            let path = wal_dir.join(format!("wal-{:05}.log", id));
            let mut file = std::fs::File::create(&path).expect("create wal file");
            for (i, ev) in f["entries"].as_array().unwrap_or(&empty).iter().enumerate() {
                // exactly what InnerWalWriter::append_immediate writes: serde_json of the WalEntry + newline
                let line = serde_json::to_string(&entry_of(ev)).expect("serialize");
                file.write_all(line.as_bytes()).unwrap();
                file.write_all(b"\n").unwrap();
                if f["blank_lines"].as_bool().unwrap_or(false) && i % 3 == 1 {
                    file.write_all(b"\n").unwrap();
                }
            }
            if let Some(t) = f["torn"].as_str() {
                file.write_all(t.as_bytes()).unwrap();
            }
            file.sync_all().unwrap();
        }
        let mut passes_out = Vec::new();
        for pass in plan["passes"].as_array().unwrap_or(&empty) {
            for op in pass["pre"].as_array().unwrap_or(&empty) {
                apply_fs(op, &arch_dir, &arch_root, shard);
            }
            let fails: Vec<u64> = pass["hook_fail"].as_array().map(|a| a.iter().filter_map(|x| x.as_u64()).collect()).unwrap_or_default();
            hooks::set_fault("wa.write", fails);
            let before = listing(&wal_dir);
            let keep = pass["keep_from"].as_u64().unwrap_or(0);
            let panicked = std::panic::catch_unwind(std::panic::AssertUnwindSafe(|| {
                WalCleaner::new(shard).cleanup_up_to(keep);
            }))
            .is_err();
            hooks::set_fault("wa.write", Vec::new());
            let rec = WalArchiveRecovery::new(shard, arch_dir.clone());
            let all = rec.recover_all().map(|v| v.iter().map(entry_json).collect::<Vec<_>>());
            let mut per_archive = serde_json::Map::new();
            if let Ok(list) = rec.list_archives() {
                for p in list {
                    let name = p.file_name().map(|n| n.to_string_lossy().to_string()).unwrap_or_default();
                    let v = match WalArchive::read_from_file(&p) {
                        Ok(a) => json!({"log_id": a.header.log_id, "shard_id": a.header.shard_id, "entry_count": a.header.entry_count,
                                        "entries": a.body.entries.iter().map(entry_json).collect::<Vec<_>>()}),
                        Err(e) => json!({"error": e.to_string()}),
                    };
                    per_archive.insert(name, v);
                }
            }
            passes_out.push(json!({"keep_from": keep, "panicked": panicked, "wal_before": before, "wal_after": listing(&wal_dir),
                                   "archive_after": listing(&arch_dir),
                                   "recover_all": match all { Ok(v) => json!(v), Err(e) => json!({"error": e.to_string()}) },
                                   "archives": Value::Object(per_archive)}));
        }
        out_plans.push(json!({"shard": shard, "passes": passes_out}));
        let _ = std::fs::remove_dir_all(&wal_dir);
        if arch_dir.is_file() {
            let _ = std::fs::remove_file(&arch_dir);
        }
        let _ = std::fs::remove_dir_all(&arch_dir);
    }
    // decode_dirs: [{"shard": n, "dir": path}] -> what archive recovery returns for an archive directory written by a live engine
    let mut decoded = Vec::new();
    for d in input["decode_dirs"].as_array().unwrap_or(&empty) {
        let shard = d["shard"].as_u64().unwrap_or(0) as usize;
        let dir = PathBuf::from(d["dir"].as_str().unwrap_or(""));
        let rec = WalArchiveRecovery::new(shard, dir.clone());
        let mut per_archive = serde_json::Map::new();
        if let Ok(list) = rec.list_archives() {
            for p in list {
                let name = p.file_name().map(|n| n.to_string_lossy().to_string()).unwrap_or_default();
                let v = match WalArchive::read_from_file(&p) {
                    Ok(a) => json!({"log_id": a.header.log_id, "entry_count": a.header.entry_count,
                                    "entries": a.body.entries.iter().map(entry_json).collect::<Vec<_>>()}),
                    Err(e) => json!({"error": e.to_string()}),
                };
                per_archive.insert(name, v);
            }
        }
        let all = rec.recover_all().map(|v| v.iter().map(entry_json).collect::<Vec<_>>());
        decoded.push(json!({"shard": shard, "archives": Value::Object(per_archive),
                            "recover_all": match all { Ok(v) => json!(v), Err(e) => json!({"error": e.to_string()}) }}));
    }
    json!({"plans": out_plans, "decoded": decoded})
}
