"""C10 - ORDER BY / LIMIT / OFFSET return the right slice in the right order (relational oracle per tier)."""
import json

from . import gen
from .gen import Field, Schema
from .hist import Lifetimes, must_ok

RULE = ("history = schema with int/float/string/datetime/nullable sort fields x 15-50 events with duplicate and missing keys x config "
        "(shards 1..5, zone sizes 1..4) with a scripted clock giving distinct core timestamps; ~45 queries ORDER BY f [DESC] LIMIT n OFFSET m "
        "(n,m in {0,1,2,|R|-1,|R|,|R|+3,1000}, plus deep pages m >= 10n) with optional WHERE/FOR, per tier mem/mixed/flush/disk+mem/c1/restart; oracle = python sort of the "
        "engine's own unordered unlimited selection on the same state; distinct_nontrivial counts distinct (sort kind, direction, "
        "limit class, offset class, scope, tier) combinations whose selection has >=3 rows")


def make_history(rng):
    fields = [Field("k", "int"), Field("a", "int"), Field("f", "float"), Field("s", "string"), Field("t", "datetime"),
              Field("o", "int", optional=True), Field("u", "u64"), Field("n", "int")]
    schema = Schema("ev", fields)
    ctxs = [f"c{j}" for j in range(rng.randint(2, 6))]
    n = rng.randint(15, 50)
    events = []
    for i in range(n):
        p = {"k": i, "a": rng.choice([-3, 0, 1, 1, 2, 7, 7, 100, -100]), "f": rng.choice([-1.5, 0.0, 0.25, 2.0, 2.5, 10.0, 1e6]),
             "s": rng.choice(["a", "b", "B", "ab", "abc", "", "z"]), "t": 1700000000 + rng.choice([0, 1, 60, 3600, 86400, 86400 * 30]),
             "u": rng.choice([0, 1, 2, 2 ** 40]),
             # keys above 2^53 that differ by less than the f64 spacing (nanosecond epochs): typed integer order must be exact
             "n": 1700000000000000000 + rng.choice([0, 1, 2, 3, 5, 7, 100, 1000, -1, -2])}
        r = rng.random()
        if r < 0.2:
            p["o"] = None
        elif r < 0.35:
            pass
        else:
            p["o"] = rng.choice([1, 2, 3, 4])
        events.append({"k": i, "ctx": rng.choice(ctxs), "payload": p})
    cfg = gen.gen_config(rng, shards=(1, 2, 3, 5), zone=(1, 2, 4), fill=(1, 2, 3, 50))
    return schema, events, cfg, ctxs


def gen_query(rng, ctxs, nrows):
    q = {"order": None, "desc": False, "limit": None, "offset": None, "where": None, "for": None}
    if rng.random() < 0.15:
        # deep page: OFFSET of at least ten times LIMIT (the top-k pre-selection budgets for ten times LIMIT+OFFSET rows)
        q["order"] = rng.choice(["k", "timestamp", "n", "a", "t", "u"])
        q["desc"] = rng.random() < 0.75
        q["limit"] = rng.choice([1, 1, 2, 3])
        q["offset"] = rng.randint(10 * q["limit"], max(10 * q["limit"], nrows - 1))
        if rng.random() < 0.15:
            q["where"] = rng.choice(["a > 0", "a <= 7", "k < 20"])
        return q
    if rng.random() < 0.14:
        # small unordered page under a selective scope: min(n, matches) rows wherever the matches live
        q["limit"] = rng.choice([1, 2, 3, 4])
        if rng.random() < 0.3:
            q["offset"] = rng.choice([0, 1, 2])
        if rng.random() < 0.75:
            q["where"] = rng.choice(["k < 8", "k < 8", "k < 20", "a > 0", "u = 2", 's = "a"', "a <= 7"])
        else:
            q["for"] = rng.choice(ctxs)
        return q
    r = rng.random()
    if r < 0.8:
        q["order"] = rng.choice(["a", "f", "s", "t", "o", "u", "k", "timestamp", "n", "n"])
        q["desc"] = rng.random() < 0.5
    sizes = [0, 1, 2, max(0, nrows - 1), nrows, nrows + 3, 1000]
    if rng.random() < 0.8:
        q["limit"] = rng.choice(sizes)
        if rng.random() < 0.5:
            q["offset"] = rng.choice(sizes[:-1])
    elif rng.random() < 0.2:
        q["offset"] = rng.choice([0, 1, 5])   # OFFSET without LIMIT: must be rejected
    if rng.random() < 0.25:
        q["where"] = rng.choice(["a > 0", "a <= 7", "k < 20", "u = 2", 's = "a"'])
    if rng.random() < 0.2:
        q["for"] = rng.choice(ctxs)
    return q


def render(q, bare=False):
    s = "QUERY ev"
    if q["for"]:
        s += f" FOR {q['for']}"
    s += " RETURN [k, a, f, s, t, o, u, n]"
    if q["where"]:
        s += f" WHERE {q['where']}"
    if bare:
        return s
    if q["order"]:
        s += f" ORDER BY {q['order']}" + (" DESC" if q["desc"] else "")
    if q["limit"] is not None:
        s += f" LIMIT {q['limit']}"
    if q["offset"] is not None:
        s += f" OFFSET {q['offset']}"
    return s


def size_class(v, n):
    if v is None:
        return "none"
    if v == 0:
        return "0"
    if v < n:
        return "lt"
    if v == n:
        return "eq"
    return "gt"


def sort_kind(f):
    return {"a": "int", "f": "float", "s": "string", "t": "datetime", "o": "int?", "u": "u64", "k": "int_unique", "timestamp": "core_ts",
            "n": "int_gt_2p53"}.get(f, "none")


def history_task(task, wdir, res):
    import random
    rng = random.Random(task["seed"])
    schema, events, cfg, ctxs = make_history(rng)
    qs = [gen_query(rng, ctxs, len(events)) for _ in range(task["nq"])]
    setup = [schema.define_cmd()]
    stores = [gen.store_cmd("ev", e["ctx"], e["payload"]) for e in events]
    witness = {"seed": task["seed"], "config": cfg, "setup": setup, "stores": stores}
    res.count("tasks"); res.count("histories")
    res.sample({"config": gen.cfg_desc(cfg), "events": len(events), "queries": [render(q) for q in qs[:5]]})
    lt = Lifetimes(wdir, **cfg)
    node = lt.start()

    def observe(tier, node):
        res.add_set("tiers", tier)
        cache = {}
        for q in qs:
            bare = render(q, bare=True)
            if bare not in cache:
                rep = node.cmd(bare)
                cache[bare] = rep.dicts() if rep.ok and rep.rows is not None else None
            R = cache[bare]
            if R is None:
                continue
            text = render(q)
            rep = node.cmd(text)
            res.evaluations += 1
            sk = sort_kind(q["order"])
            sig = {"sort": sk, "desc": q["desc"], "limit": size_class(q["limit"], len(R)), "offset": size_class(q["offset"], len(R)),
                   "where": bool(q["where"]), "for": bool(q["for"]), "tier": tier,
                   "deep_page": bool(q["limit"] and q["offset"] is not None and q["offset"] >= 10 * q["limit"])}
            w = dict(witness, query=text, tier=tier)
            if len(R) >= 3:
                res.nontrivial((sk, q["desc"], sig["limit"], sig["offset"], sig["deep_page"], bool(q["where"]) or bool(q["for"]), tier))
            if rep.kind == "panic":
                res.violation("query_panicked", sig, f"{text}: {rep.message}", w)
                continue
            if q["offset"] is not None and q["limit"] is None:
                if rep.ok:
                    res.violation("offset_without_limit_accepted", {"tier": tier}, text, w)
                continue
            if not rep.ok or rep.rows is None:
                res.violation("query_failed", sig, f"{text}: {rep!r} {rep.raw[:200]!r}", w)
                continue
            got = rep.dicts()
            gk = [r["k"] for r in got]
            Rk = {r["k"]: r for r in R}
            if len(set(gk)) != len(gk):
                res.violation("row_twice", sig, f"{text}: k={gk}", w)
            foreign = [k for k in gk if k not in Rk]
            if foreign:
                res.violation("row_not_in_selection", sig, f"{text}: k={foreign[:8]} not returned by the same query without ORDER/LIMIT", w)
            n = q["limit"] if q["limit"] is not None else len(R)
            m = q["offset"] or 0
            want = max(0, min(n, len(R) - m))
            if len(got) != want:
                res.violation("slice_size", sig, f"{text}: {len(got)} rows, expected {want} (|selection|={len(R)})", w)
                continue
            if not q["order"]:
                continue
            col = q["order"]
            if col == "timestamp":
                keyof = lambda r: r.get("timestamp")
                # selection R was asked with the same RETURN list, timestamp is a core column
            else:
                keyof = lambda r: r.get(col)
            keys = [keyof(r) for r in got]
            nn = [x for x in keys if x is not None]
            ordered = all((nn[i] >= nn[i + 1]) if q["desc"] else (nn[i] <= nn[i + 1]) for i in range(len(nn) - 1))
            if not ordered:
                res.violation("not_sorted", sig, f"{text}: keys={keys[:20]}", w)
                continue
            # the key multiset of the slice must match positions m..m+n of a reference sort (nulls first or last)
            allk = [keyof(r) for r in R]
            nonnull = sorted([x for x in allk if x is not None], reverse=q["desc"])
            nulls = [None] * (len(allk) - len(nonnull))
            cands = [nulls + nonnull, nonnull + nulls]
            okslice = any(sorted(map(repr, c[m:m + n])) == sorted(map(repr, keys)) for c in cands)
            if not okslice:
                res.violation("wrong_slice", sig,
                              f"{text}: keys={keys[:12]} expected positions {m}..{m + n} of {cands[1][:min(len(R), m + n + 2)]}", w)

    try:
        for c in setup:
            must_ok(node.cmd(c), "setup")
        node.meta("clock auto 1700000000000 700")   # distinct, increasing core timestamps
        for c in stores:
            must_ok(node.cmd(c), "store")
        node.meta("clock real")
        node.syncflush()
        st = node.meta("state")
        observe("mixed" if any(sh["live"] or sh["inflight"] for sh in st) else "mem", node)
        must_ok(node.cmd("FLUSH", timeout=60), "FLUSH")
        node.syncflush()
        observe("flush", node)
        # newer events of the same type in the memtables on top of the flushed ones (a memtable that alone could fill a page
        # must not stand in for the segments): the reference is still the engine's own unlimited selection
        rng2 = random.Random(task["seed"] ^ 0x77)
        extra = []
        for j in range(rng2.randint(4, 12)):
            e = dict(rng2.choice(events)["payload"])
            e["k"] = len(events) + j
            extra.append(gen.store_cmd("ev", rng2.choice(ctxs), e))
        witness["stores_after_flush"] = extra
        node.meta("clock auto 1700000100000 700")
        for c in extra:
            must_ok(node.cmd(c), "store")
        node.meta("clock real")
        node.syncflush()      # auto-flushes triggered by these stores are awaited: reads during a flush are C03's subject
        observe("disk+mem", node)
        lt.compact_all(1)
        observe("c1", node)
        node = lt.restart_clean()
        observe("restart", node)
    finally:
        lt.stop()


def run(run):
    n = 16 if run.tier == "quick" else 1200
    nq = 45 if run.tier == "quick" else 70
    tasks = [{"name": f"h{i}", "seed": run.rng("hist", i).getrandbits(48), "nq": nq} for i in range(n)]
    run.min_distinct = 60
    run.assumptions = ["relational oracle: reference = python sort of the engine's own unordered selection on the same quiescent state",
                       "ties may be broken arbitrarily (only the key multiset of the slice is fixed); rows with a missing key may sort first or last"]
    run.parallel(history_task, tasks)


def replay(run, path):
    with open(path) as f:
        w = json.load(f)
    run.parallel(history_task, [{"name": "replay", "seed": w["witness"]["seed"], "nq": 45}], nproc=1)
