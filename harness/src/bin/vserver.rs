#![feature(portable_simd)]
//! vserver: the body of the repo's `main` (frontend::start_all with TCP/HTTP/WS listeners and
//! the ctrl-c shutdown task) with the verification hook handler installed from an env plan.
//! VSERVER_ARM="point:nth:action[;point:nth:action]" (action = crash | delay:<ms>)
use verif_harness::hooks::{self, Action};

#[tokio::main]
async fn main() -> anyhow::Result<()> {
    hooks::install();
    if let Ok(plan) = std::env::var("VSERVER_ARM") {
        for item in plan.split(';').filter(|s| !s.is_empty()) {
            let p: Vec<&str> = item.split(':').collect();
            if p.len() < 3 {
                continue;
            }
            let nth: u64 = p[1].parse().unwrap_or(1);
            let action = match p[2] {
                "crash" => Action::Crash,
                "delay" => Action::DelayMs(p.get(3).and_then(|x| x.parse().ok()).unwrap_or(1)),
                _ => Action::Crash,
            };
            hooks::arm(p[0], nth, None, action);
        }
    }
    use snel_db::engine::core::read::cache::{
        GlobalColumnBlockCache, GlobalZoneIndexCache, GlobalZoneSurfCache,
    };
    use snel_db::shared::config::CONFIG;
    if let Some(q) = CONFIG.query.as_ref() {
        if let Some(cap) = q.zone_index_cache_max_entries {
            GlobalZoneIndexCache::instance().resize(cap);
        }
        if let Some(bytes) = q.column_block_cache_max_bytes {
            GlobalColumnBlockCache::instance().resize_bytes(bytes);
        }
        if let Some(bytes) = q.zone_surf_cache_max_bytes {
            GlobalZoneSurfCache::instance().resize_bytes(bytes);
        }
    }
    let _ = snel_db::frontend::start_all().await;
    Ok(())
}
