"""Summarise the replay files of the last run: python3 -m vp.summ C02 [keys...]"""
import sys, json, glob, collections, os
prop = sys.argv[1]
keys = sys.argv[2:] or None
agg = collections.Counter(); ex = {}
for p in glob.glob(os.path.join(os.path.dirname(os.path.dirname(os.path.abspath(__file__))), "replays", f"tmp-{prop}-*.json")):
    w = json.load(open(p))
    sig = w["sig"]
    ks = keys or sorted(sig)
    key = (w["rule"],) + tuple(str(sig.get(k)) for k in ks)
    agg[key] += w["count"]; ex.setdefault(key, str(w["detail"])[:int(os.environ.get("W", "160"))])
for k, v in sorted(agg.items(), key=str):
    print(v, " | ".join(k), "::", ex[k])
