"""C15 - sequence queries return exactly the linked, correctly ordered pairs.

Reference oracle (from docs/src/commands/query.md): a pair (a, b) is valid iff both carry the same link value, b is at the same
time or later (FOLLOWED BY) resp. strictly earlier (PRECEDED BY), and each side satisfies the WHERE conditions addressed to it
(the projection of the expression on that side's leaves; unprefixed fields apply to both events).
Which partner is reported for an a-event with several valid partners is not specified, so the oracle checks pair validity, the
set of matched a-events, and the count under LIMIT; layouts must agree on the matched set."""
import json
import random

from . import gen
from .hist import Lifetimes, must_ok

RULE = ("history = two linked event types (+ a noise type) x 10-40 events with link values shared by many events / by one side only / unique, "
        "times from a 4-8 value domain (ties frequent) given by a payload datetime (USING TIME) or by the scripted core clock, spread over "
        "1-3 shards; ~40 sequence queries (FOLLOWED BY / PRECEDED BY x WHERE none / a-side / b-side / both sides / cross-side OR / "
        "unprefixed single-type field x LIMIT none,1,2,big) asked in tiers mem/mixed/flush/c1/c2/restart; oracle: every returned pair valid, "
        "matched a-set = reference a-set, count = min(LIMIT, matchable); distinct_nontrivial counts distinct (link kind, where family, limit class, "
        "time mode, tier) cells whose reference has both matched and unmatched a-events")

VALS = ["x", "y", "z"]


def make_history(rng):
    link_kind = rng.choice(["string", "string", "int"])
    nl = rng.randint(2, 6)
    links = [f"u{i}" if link_kind == "string" else 10 + i for i in range(nl)]
    side = {l: rng.choice(["both", "both", "both", "a", "b"]) for l in links}
    times = sorted(rng.sample(range(1700000000, 1700000400, 10), rng.randint(4, 8)))
    n = rng.randint(10, 40)
    evs = []
    ctxs = [f"c{i}" for i in range(rng.randint(2, 6))]
    for k in range(1, n + 1):
        r = rng.random()
        ty = "ea" if r < 0.45 else "eb" if r < 0.9 else "ec"
        cand = [l for l in links if side[l] == "both" or (side[l] == "a" and ty != "eb") or (side[l] == "b" and ty != "ea")]
        u = rng.choice(cand or links)
        e = {"k": k, "type": ty, "ctx": rng.choice(ctxs), "u": u, "t": rng.choice(times), "v": rng.choice(VALS), "n": rng.randint(0, 3)}
        if ty == "ea":
            e["pa"] = rng.choice(["p", "q"])
        if ty == "eb":
            e["pb"] = rng.choice(["p", "q"])
        evs.append(e)
    return link_kind, evs, ctxs


class Cond:
    """leaf: (side, field, op, lit); side in ea/eb/None (unprefixed: applies to all events)"""
    def __init__(self, side, field, op, lit):
        self.side, self.field, self.op, self.lit = side, field, op, lit

    def render(self):
        lit = json.dumps(self.lit) if isinstance(self.lit, str) else str(self.lit)
        return (f"{self.side}." if self.side else "") + f"{self.field} {self.op} {lit}"

    def proj(self, ty):
        return self if self.side in (None, ty) else None

    def ev1(self, e):
        v = e.get("ts" if self.field == "timestamp" else ("ctx" if self.field == "context_id" else self.field))
        if v is None:
            return None          # field absent from this type / null: unspecified
        return {"=": v == self.lit, "!=": v != self.lit, "<": v < self.lit, "<=": v <= self.lit, ">": v > self.lit, ">=": v >= self.lit}[self.op]


class Tree:
    def __init__(self, op, l, r):
        self.op, self.l, self.r = op, l, r

    def render(self):
        return f"({self.l.render()}) {self.op} ({self.r.render()})"

    def proj(self, ty):
        # the conditions addressed to one side: leaves of the other side drop out of the tree
        l, r = self.l.proj(ty), self.r.proj(ty)
        if l is None or r is None:
            return l or r
        return Tree(self.op, l, r)

    def ev1(self, e):
        x, y = self.l.ev1(e), self.r.ev1(e)
        if self.op == "AND":
            return False if (x is False or y is False) else (None if (x is None or y is None) else True)
        return True if (x is True or y is True) else (None if (x is None or y is None) else False)


def leaf(rng, side):
    f = rng.choice(["v", "v", "n"])
    if f == "v":
        return Cond(side, "v", rng.choice(["=", "=", "!="]), rng.choice(VALS))
    return Cond(side, "n", rng.choice(["=", "<", ">=", "<=", ">"]), rng.randint(0, 3))


def gen_where(rng, ctxs, times):
    r = rng.random()
    if r < 0.14:
        return "none", None
    if r < 0.30:
        return "a_side", leaf(rng, "ea")
    if r < 0.48:
        return "b_side", leaf(rng, "eb")
    if r < 0.68:
        return "both_sides_and", Tree("AND", leaf(rng, "ea"), leaf(rng, "eb"))
    if r < 0.76:
        return "same_side_or", Tree("OR", leaf(rng, "eb"), leaf(rng, "eb"))
    if r < 0.86:
        return "cross_side_or", Tree("OR", leaf(rng, "ea"), leaf(rng, "eb"))
    if r < 0.90:
        return "unprefixed_single_type_field", Cond(None, rng.choice(["pa", "pb"]), "=", rng.choice(["p", "q"]))
    if r < 0.95:
        c = Cond(None, "context_id", rng.choice(["=", "!="]), rng.choice(ctxs)) if (rng.random() < 0.5 or not times) else \
            Cond(None, "timestamp", rng.choice([">=", "<=", ">", "<"]), rng.choice(times))
        return "unprefixed_core_field", (c if rng.random() < 0.5 else Tree("AND", c, leaf(rng, rng.choice(["ea", "eb"]))))
    return "both_sides_and3", Tree("AND", Tree("AND", leaf(rng, "ea"), leaf(rng, "eb")), leaf(rng, "eb"))


def reference(evs, link, tmode, expr):
    """returns (valid(a,b) predicate closure data): dict a_k -> set of valid partner ks; plus 'unspecified' a set"""
    tf = "t" if tmode == "payload" else "ts"
    A = [e for e in evs if e["type"] == "ea"]
    B = [e for e in evs if e["type"] == "eb"]
    partners, maybe = {}, {}
    pa = expr.proj("ea") if expr is not None else None
    pb = expr.proj("eb") if expr is not None else None
    for a in A:
        for b in B:
            if a["u"] != b["u"]:
                continue
            ok_t = (b[tf] >= a[tf]) if link == "FOLLOWED BY" else (b[tf] < a[tf])
            if not ok_t:
                continue
            wa = True if pa is None else pa.ev1(a)
            wb = True if pb is None else pb.ev1(b)
            w = False if (wa is False or wb is False) else (None if (wa is None or wb is None) else True)
            if w is True:
                partners.setdefault(a["k"], set()).add(b["k"])
            elif w is None:
                maybe.setdefault(a["k"], set()).add(b["k"])
    return partners, maybe


def history_task(task, wdir, res):
    rng = random.Random(task["seed"])
    link_kind, evs, ctxs = make_history(rng)
    tmode = rng.choice(["payload", "payload", "core"])
    cfg = gen.gen_config(rng, shards=(1, 2, 3), zone=(1, 2, 3, 5), fill=(1, 2, 3, 50))
    uspec = '"string"' if link_kind == "string" else '"int"'
    setup = [f'DEFINE ea FIELDS {{ k: "int", u: {uspec}, t: "datetime", v: "string", n: "int", pa: "string" }}',
             f'DEFINE eb FIELDS {{ k: "int", u: {uspec}, t: "datetime", v: "string", n: "int", pb: "string" }}',
             f'DEFINE ec FIELDS {{ k: "int", u: {uspec}, t: "datetime", v: "string", n: "int" }}']
    if tmode == "core":
        evs.sort(key=lambda e: e["t"])          # arrival order = time order (non-decreasing seconds)
        for i, e in enumerate(evs):
            e["k"] = i + 1
    for e in evs:
        e["ts"] = e["t"]
    queries = []
    for qi in range(task["nq"]):
        link = rng.choice(["FOLLOWED BY", "FOLLOWED BY", "PRECEDED BY"])
        fam, expr = gen_where(rng, ctxs, sorted({e['t'] for e in evs}) if tmode == 'core' else [])
        lim = rng.choice([None, None, None, 1, 2, 1000])
        text = f"QUERY ea {link} eb LINKED BY u" + (" USING TIME t" if tmode == "payload" else "")
        if expr is not None:
            text += " WHERE " + expr.render()
        if lim is not None:
            text += f" LIMIT {lim}"
        queries.append((link, fam, expr, lim, text))
    res.count("tasks"); res.count("histories")
    witness = {"seed": task["seed"], "nq": task["nq"], "config": cfg, "time_mode": tmode, "link_kind": link_kind,
               "events": [{x: e[x] for x in e if x != "ts"} for e in evs]}
    res.sample({"config": gen.cfg_desc(cfg), "time_mode": tmode, "events": len(evs), "queries": [q[4] for q in queries[:4]]})
    by_k = {e["k"]: e for e in evs}
    refs = [reference(evs, q[0], tmode, q[2]) for q in queries]
    matched_by_tier = {}

    def observe(tier, node):
        res.add_set("tiers", tier)
        from .c05 import stale_uid_files
        stale = stale_uid_files(node)     # a named segment still holds files of a type that was compacted out of it
        for qi, (link, fam, expr, lim, text) in enumerate(queries):
            rep = node.cmd(text)
            res.evaluations += 1
            partners, maybe = refs[qi]
            limc = "none" if lim is None else ("big" if lim >= 1000 else "small")
            sig = {"link": link, "where": fam, "limit": limc, "time_mode": tmode}
            w = dict(witness, query=text, tier=tier)
            if rep.kind == "panic":
                res.violation("sequence_panicked", sig, f"{text}: {rep.message}", w)
                continue
            if rep.rows is None:
                res.violation("sequence_failed", sig, f"{text} @ {tier}: {rep!r} {rep.raw[:160]!r}", w)
                continue
            rows = rep.dicts()
            ref_a = set(partners)
            unspecified_a = set(maybe) - ref_a
            if ref_a and len(ref_a) < sum(1 for e in evs if e["type"] == "ea"):
                res.nontrivial((link_kind, link, fam, limc, tmode, tier))
            # pair reconstruction: consecutive rows (a, b) resp. (b, a)
            if len(rows) % 2:
                res.violation("malformed_pairs", sig, f"{text} @ {tier}: odd number of rows {len(rows)}", w)
                continue
            pairs, bad = [], None
            for i in range(0, len(rows), 2):
                two = rows[i:i + 2]
                tys = sorted(r.get("event_type") for r in two)
                if tys != ["ea", "eb"]:
                    bad = f"rows {i},{i + 1} have types {tys}"
                    break
                a = next(r for r in two if r["event_type"] == "ea")
                b = next(r for r in two if r["event_type"] == "eb")
                pairs.append((a.get("k"), b.get("k")))
            if bad:
                res.violation("malformed_pairs", sig, f"{text} @ {tier}: {bad}", w)
                continue
            res.count("pairs_observed", len(pairs))
            for ak, bk in pairs:
                if ak not in by_k or bk not in by_k:
                    res.violation("foreign_row_in_pair", sig, f"{text} @ {tier}: pair ({ak},{bk})", w)
                    continue
                if bk in partners.get(ak, ()) or bk in maybe.get(ak, ()):
                    continue
                a, b = by_k[ak], by_k[bk]
                why = "link_differs" if a["u"] != b["u"] else \
                      ("time_order" if not ((b["ts"] >= a["ts"]) if link == "FOLLOWED BY" else (b["ts"] < a["ts"])) else "where_fails")
                res.violation("invalid_pair", dict(sig, why=why),
                              f"{text} @ {tier}: pair a(k={ak},u={a['u']},t={a['t']},v={a['v']},n={a['n']}) "
                              f"b(k={bk},u={b['u']},t={b['t']},v={b['v']},n={b['n']}) is not a valid sequence ({why})", w)
            got_a = [p[0] for p in pairs]
            if len(set(pairs)) != len(pairs):
                res.count("duplicate_pairs_seen")
                dups = sorted({p for p in pairs if pairs.count(p) > 1})
                res.violation("sequence_reported_twice", dict(sig, tier_kind=("compacted" if tier in ("c1", "c2", "restart") else tier), stale_uid_files=stale),
                              f"{text} @ {tier}: pairs {dups[:5]} appear more than once among {len(pairs)}", w)
            if len(set(got_a)) != len(got_a):
                res.count("a_event_in_several_pairs_seen")
            if lim is None or lim >= 1000:
                matched_by_tier.setdefault(qi, {})[tier] = frozenset(got_a)
                missing = ref_a - set(got_a)
                extra = set(got_a) - ref_a - unspecified_a
                if missing:
                    res.violation("matchable_a_not_matched", sig,
                                  f"{text} @ {tier}: a-events k={sorted(missing)[:8]} have a qualifying partner but are not in the answer "
                                  f"(answer a={sorted(set(got_a))[:12]})", w)
                if extra:
                    res.violation("unmatchable_a_matched", sig, f"{text} @ {tier}: a-events k={sorted(extra)[:8]} have no qualifying partner", w)
            else:
                lo, hi = min(lim, len(ref_a)), min(lim, len(ref_a | unspecified_a))
                if len(pairs) > lim:
                    res.violation("limit_exceeded", sig, f"{text} @ {tier}: {len(pairs)} sequences for LIMIT {lim}", w)
                elif len(set(pairs)) == len(pairs) and not (lo <= len(pairs) <= max(hi, lo)):
                    res.violation("limit_count", sig, f"{text} @ {tier}: {len(pairs)} sequences, LIMIT {lim}, matchable a-events {len(ref_a)}; pairs {pairs[:6]}", w)

    lt = Lifetimes(wdir, **cfg)
    node = lt.start()
    try:
        for c in setup:
            must_ok(node.cmd(c), "define")
        for e in evs:
            if tmode == "core":
                node.meta(f"clock mono {e['t'] * 1000} 0")
            pl = {x: e[x] for x in ("k", "u", "t", "v", "n", "pa", "pb") if x in e}
            must_ok(node.cmd(gen.store_cmd(e["type"], e["ctx"], pl)), "store")
        node.syncflush()
        st = node.meta("state")
        observe("mixed" if any(sh["live"] or sh["inflight"] for sh in st) else "mem", node)
        must_ok(node.cmd("FLUSH", timeout=60), "FLUSH"); node.syncflush()
        observe("flush", node)
        lt.compact_all(1); observe("c1", node)
        if task.get("deep"):
            lt.compact_all(1); observe("c2", node)
        node = lt.restart_clean()
        observe("restart", node)
    finally:
        lt.stop()
    for qi, per in matched_by_tier.items():
        partners, maybe = refs[qi]
        unspecified = set(maybe) - set(partners)
        if not unspecified:
            continue
        items = sorted(per.items())
        for t, s in items[1:]:
            d = (s ^ items[0][1]) & unspecified
            if d:
                link, fam, expr, lim, text = queries[qi]
                res.violation("layout_disagreement", {"link": link, "where": fam},
                              f"{text}: tiers {items[0][0]} and {t} differ on a-events {sorted(d)[:8]}", dict(witness, query=text))
                break


def run(run):
    quick = run.tier == "quick"
    n = 32 if quick else 600
    tasks = [{"name": f"h{i}", "seed": run.rng("h", i).getrandbits(44), "nq": 36 if quick else 48, "deep": (i % 3 == 0)} for i in range(n)]
    run.min_distinct = 30
    run.assumptions = ["which partner is reported for an a-event with several qualifying partners is unspecified (pair validity and the matched "
                       "a-set are checked)", "an unprefixed WHERE field that exists in exactly one of the two types is addressed to that type "
                       "(query.md 'Avoiding ambiguity')", "core-time histories store in non-decreasing time order under the hook clock"]
    run.parallel(history_task, tasks)


def replay(run, path):
    with open(path) as f:
        w = json.load(f)["witness"]
    run.parallel(history_task, [{"name": "replay", "seed": w["seed"], "nq": w.get("nq", 36), "deep": True}], nproc=1)
