#![feature(portable_simd)]
//! vunit: library-level monitors that call the repo's public functions directly.
//! Usage: vunit <subcommand> <json-args-file>  -> JSON on stdout.
use serde_json::{Value, json};

#[path = "vunit/c08.rs"]
mod c08;
#[path = "vunit/c16.rs"]
mod c16;
#[path = "vunit/c17.rs"]
mod c17;
#[path = "vunit/c18.rs"]
mod c18;
#[path = "vunit/c19.rs"]
mod c19;
#[path = "vunit/c20.rs"]
mod c20;

fn main() {
    let args: Vec<String> = std::env::args().collect();
    if args.len() < 3 {
        eprintln!("usage: vunit <c08|c16|c17|c18|c19|c20> <args.json>");
        std::process::exit(2);
    }
    let text = std::fs::read_to_string(&args[2]).expect("read args file");
    let input: Value = serde_json::from_str(&text).expect("args json");
    let out = match args[1].as_str() {
        "c08" => c08::run(&input),
        "c16" => c16::run(&input),
        "c17" => c17::run(&input),
        "c18" => c18::run(&input),
        "c19" => c19::run(&input),
        "c20" => c20::run(&input),
        other => json!({"error": format!("unknown subcommand {other}")}),
    };
    println!("{}", out);
}
