"""C04 - REPLAY returns a context's events in the order their STOREs were applied."""
import json
import random

from . import gen
from .hist import Lifetimes, must_ok

RULE = ("history = 3-6 contexts (single writer, so apply order = issue order) x 2 event types interleaved, with FLUSH / auto-flush / "
        "deterministic compaction rounds / clean restarts placed between the appends (exhaustive placements for short sequences, random "
        "beyond) x zone sizes 1-3, fill 1-3, merge fan-in 2-3 x wall clock real / stepping back and forth between appends (scripted clock hook); every REPLAY [type] FOR ctx [SINCE] [RETURN] is asked without delay and "
        "with a delay armed at rd.memtable_flow_start resp. rd.segment_flow_start (forcing both arrival orders of the memory and segment "
        "streams); oracle: sequence equality with the per-context append list; distinct_nontrivial counts distinct (layout class of the "
        "context's events, replay form, schedule) combinations with >=2 events")


def layout_class(parts):
    """parts: set of tiers the context's events live in."""
    return "+".join(sorted(parts)) or "empty"


def history_task(task, wdir, res):
    rng = random.Random(task["seed"])
    cfg = dict(shard_count=rng.choice([1, 1, 2]), event_per_zone=rng.choice([1, 2, 3]), fill_factor=rng.choice([1, 2, 3, 50]),
               segments_per_merge=rng.choice([2, 3]))
    cap = cfg["fill_factor"] * cfg["event_per_zone"]
    ctxs = [f"c{i}" for i in range(rng.randint(3, 6))]
    lt = Lifetimes(wdir, **cfg)
    node = lt.start()
    res.count("tasks"); res.count("histories")
    witness = {"seed": task["seed"], "config": cfg, "ops": []}
    try:
        must_ok(node.cmd('DEFINE ev FIELDS { k: "int", t: "datetime" }'), "define")
        must_ok(node.cmd('DEFINE ev2 FIELDS { k: "int", t: "datetime" }'), "define")
        appended = {c: [] for c in ctxs}      # ctx -> list of (k, type, t, tier)
        k = 0
        nsteps = task["steps"]
        plan = task.get("plan")               # explicit placement list for the exhaustive part
        t0 = 1700000000
        stepping = bool(task.get("clock") == "stepping")
        clock_ms = [1700000500000]
        clock_hi = [1700000500000]     # every lifetime starts ahead of all earlier ids (a restart behind them is C18's finding)
        if stepping:
            node.meta(f"clock auto {clock_ms[0]} 300")
        witness["clock"] = "stepping" if stepping else "real"

        def tier_update(new_tier, only=None):
            for c in ctxs:
                appended[c] = [(kk, ty, tt, (new_tier(tr) if (only is None or tr in only) else tr)) for kk, ty, tt, tr in appended[c]]

        def flushed(tr):
            return {"mem": "l0", "mem_or_l0": "l0", "mem_or_l0_or_compacted": "l0_or_compacted"}.get(tr, tr)

        def check_all(when):
            st = node.meta("state")
            for c in ctxs:
                evs = appended[c]
                if not evs:
                    continue
                forms = [("typed", f"REPLAY ev FOR {c}", lambda e: e[1] == "ev"),
                         ("typed_return", f"REPLAY ev FOR {c} RETURN [k]", lambda e: e[1] == "ev")]
                mid = evs[len(evs) // 2][2]
                forms.append(("since", f'REPLAY ev FOR {c} SINCE "{mid}" USING t', lambda e, mid=mid: e[1] == "ev" and e[2] >= mid))
                forms.append(("wildcard", f"REPLAY FOR {c}", lambda e: True))
                for form, q, sel in forms:
                    want = [e for e in evs if sel(e)]
                    tiers = {e[3] for e in want}
                    lc = layout_class(tiers)
                    for sched in ("none", "mem_late", "seg_late"):
                        if sched == "mem_late":
                            node.meta("arm rd.memtable_flow_start 0 delay:15")
                        elif sched == "seg_late":
                            node.meta("arm rd.segment_flow_start 0 delay:15")
                        rep = node.cmd(q)
                        if sched != "none":
                            node.meta("disarm")
                        res.evaluations += 1
                        if len(want) >= 2:
                            res.nontrivial((lc, form, sched))
                        res.add_set("layout_classes", lc)
                        kind = lc if lc in ("mem", "l0", "empty") else "mixed_or_compacted"
                        sig = {"layout": lc, "layout_kind": kind, "form": form, "schedule": sched}
                        w = dict(witness, query=q, when=when, state=st)
                        if rep.kind == "panic":
                            res.violation("replay_panicked", sig, rep.message, w)
                            continue
                        if rep.rows is None:
                            if want:
                                res.violation("replay_failed", sig, f"{q}: {rep!r}", w)
                            continue
                        got = [r.get("k") for r in rep.dicts()]
                        exp = [e[0] for e in want]
                        if got == exp:
                            continue
                        import collections as _c
                        if _c.Counter(got) != _c.Counter(exp):
                            missing = [x for x in exp if x not in got]
                            extra = [x for x in got if x not in exp]
                            dup = len(got) != len(set(got))
                            res.violation("replay_membership", dict(sig, missing=bool(missing), extra=bool(extra), dup=dup),
                                          f"{when}: {q} [{lc}/{sched}]: got {got[:14]} expected {exp[:14]}", w)
                        else:
                            res.violation("replay_order", sig, f"{when}: {q} [{lc}/{sched}]: got {got[:14]} expected {exp[:14]}", w)

        for step in range(nsteps):
            r = rng.random()
            op = plan[step] if plan else ("store" if r < 0.62 else "flush" if r < 0.78 else "compact" if r < 0.9 else "restart")
            witness["ops"].append(op)
            if op == "store":
                for _ in range(rng.randint(1, 3)):
                    k += 1
                    if stepping and rng.random() < 0.35:
                        # the wall clock steps (NTP correction, VM resume): core timestamps are not monotone in append order
                        now = int(node.meta("clock peek").get("now") or 0)      # the scripted clock advances with every read
                        clock_hi[0] = max(clock_hi[0], now)
                        clock_ms[0] = max(now, clock_ms[0]) + rng.choice([-7000, -3000, -1000, -1000, 2000, 60000])
                        clock_hi[0] = max(clock_hi[0], clock_ms[0])
                        node.meta(f"clock auto {clock_ms[0]} 300")
                        res.count("clock_steps")
                    c = rng.choice(ctxs)
                    ty = "ev2" if rng.random() < 0.25 else "ev"
                    must_ok(node.cmd(gen.store_cmd(ty, c, {"k": k, "t": t0 + k})), "store")
                    appended[c].append((k, ty, t0 + k, "mem"))
                node.syncflush()
                if cap < 50:
                    # auto-flush may have rotated any of them: the tier of not-yet-manually-flushed events is uncertain
                    tier_update(lambda tr: "mem_or_l0", only=("mem",))
            elif op == "flush":
                must_ok(node.cmd("FLUSH", timeout=60), "flush"); node.syncflush()
                tier_update(flushed)
            elif op == "compact":
                results = lt.compact_all(1)
                if any(r_.get("plans") for r_ in results):
                    tier_update(lambda tr: tr if (tr == "mem" or tr.endswith("compacted")) else tr + "_or_compacted")
            elif op == "restart":
                if stepping:
                    clock_hi[0] = max(clock_hi[0], int(node.meta("clock peek").get("now") or 0))
                node = lt.restart_clean()
                if stepping:
                    clock_ms[0] = clock_hi[0] + 3600000      # far beyond anything the shutdown path may still have read
                    clock_hi[0] = clock_ms[0]
                    node.meta(f"clock auto {clock_ms[0]} 300")
                tier_update(flushed)
            if step % 2 == 1 or step == nsteps - 1:
                check_all(f"after step {step} ({op})")
        res.sample({"config": cfg, "ops": witness["ops"][:30], "events": k})
    finally:
        lt.stop()


def run(run):
    quick = run.tier == "quick"
    tasks = []
    # exhaustive placements of one FLUSH / COMPACT / RESTART inside a 5-store sequence
    import itertools
    ex = 0
    for pos in range(1, 6):
        for extra in ("flush", "restart", "compact"):
            plan = ["store"] * 6
            plan.insert(pos, extra)
            if extra == "compact":
                plan = ["store", "flush", "store", "flush"] + plan
            tasks.append({"name": f"ex{ex}", "seed": run.rng("ex", ex).getrandbits(40), "steps": len(plan), "plan": plan,
                          "clock": "stepping" if ex % 2 else "real"}); ex += 1
    n = 16 if quick else 500
    for i in range(n):
        tasks.append({"name": f"h{i}", "seed": run.rng("h", i).getrandbits(40), "steps": 14 if quick else 24,
                      "clock": "stepping" if i % 2 else "real"})
    run.min_distinct = 20
    run.assumptions = ["one writer per history: apply order per context = issue order", "layout classes in signatures are derived from the history "
                       "(mem / l0 / compacted, with *_or_* where auto-flush or partial compaction makes the tier of an event uncertain)"]
    run.parallel(history_task, tasks)


def replay(run, path):
    with open(path) as f:
        w = json.load(f)["witness"]
    run.parallel(history_task, [{"name": "replay", "seed": w["seed"], "steps": len(w["ops"]), "plan": w["ops"], "clock": w.get("clock", "real")}], nproc=1)
