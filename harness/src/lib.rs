#![feature(portable_simd)]
pub mod engine;
pub mod fsmon;
pub mod hooks;
