"""C01 - applied writes survive any process crash and restart, exactly once (fault enumeration over
named step points x generated histories)."""
import json
import random

from . import crash as C
from .hist import Lifetimes, must_ok
from .node import NodeDied

RULE = ("history = template (auto / manual_flush / empty_flush / restart / compact / compact_restart) x seed x configuration "
        "(capacity 1..8, shards 1..3, merge fan-in 2..3, WAL flush_each_write); a dry run records which named step points fire in "
        "the crash window and how often; the history is then re-run once per (point, n-th hit) with the process _exit()ing there "
        "(plus SIGKILL between commands), restarted on the same directories and checked: applied k exactly once with original "
        "context/type/payload, open k at most once, nothing foreign, COUNT = rows, REPLAY per context, again after FLUSH+compaction "
        "and after a clean restart; distinct_nontrivial counts distinct (template, crash point) pairs that actually fired")

PHASES = ("after_crash_restart", "after_flush_compact", "after_clean_restart")


def verify(node, pl, res, phase, sig_base, witness, buffered):
    """Oracle over the restarted store."""
    out_ok = True
    for etype, vf in (("ev", lambda k: f"val-{k}"), ("ev2", lambda k: k * 3)):
        A = {k: op for k, op in pl.applied.items() if op["type"] == etype}
        U = {k: op for k, op in pl.open.items() if op["type"] == etype}
        rep = node.cmd(f"QUERY {etype}")
        res.evaluations += 1
        if rep.kind == "panic" or (not rep.ok and (A or U)) and rep.rows is None:
            if not A and not rep.ok:
                continue
            res.violation("read_failed_after_restart", dict(sig_base, phase=phase), f"QUERY {etype}: {rep!r} {rep.raw[:200]!r}", witness)
            return False
        rows = rep.dicts() if rep.rows is not None else []
        by_k = {}
        for r in rows:
            by_k.setdefault(r.get("k"), []).append(r)
        # an event is present if any read path returns it: REPLAY per context is the second path
        replayed = {}
        for ctx in sorted({op["ctx"] for op in list(A.values()) + list(U.values())}):
            rp = node.cmd(f"REPLAY {etype} FOR {ctx}")
            replayed[ctx] = rp
            if rp.rows is not None:
                for r in rp.dicts():
                    if r.get("k") not in by_k and r.get("k") is not None:
                        pass
        replay_ks = {r.get("k") for rp in replayed.values() if rp.rows is not None for r in rp.dicts()}
        lost = sorted(k for k in A if k not in by_k and k not in replay_ks)
        dup = sorted(k for k, rs in by_k.items() if len(rs) > 1)
        foreign = sorted(str(k) for k in by_k if k not in A and k not in U)
        if buffered and phase != "after_crash_restart":
            # what the buffered WAL legitimately lost at the crash stays lost; it is not a new loss of the later phases
            gone = getattr(pl, "buffered_lost", {}).get(etype, set())
            lost = [k for k in lost if k not in gone]
        if buffered and phase == "after_crash_restart" and lost:
            if not hasattr(pl, "buffered_lost"):
                pl.buffered_lost = {}
            pl.buffered_lost[etype] = set(lost)
            # weakened clause: per context (hence per shard) the survivors of one process lifetime form a prefix of that lifetime's
            # apply order (an earlier crash of the same history may already have cost the tail of an earlier lifetime)
            lost_set = set(lost)
            bad = []
            for ctx, life in {(op["ctx"], op.get("life", 0)) for op in A.values()}:
                ks = sorted(k for k, op in A.items() if op["ctx"] == ctx and op.get("life", 0) == life)
                seen_lost = False
                for k in ks:
                    if k in lost_set:
                        seen_lost = True
                    elif seen_lost:
                        bad.append(k)
            if bad:
                res.violation("buffered_not_prefix", dict(sig_base, phase=phase), f"{etype}: survivors after a lost event in the same context: {bad[:8]}", witness)
                out_ok = False
            lost = []
        if lost:
            # observational attribution: was the WAL line ever on disk, and was it still there at the crash?
            attrs = {}
            for k in lost:
                if (etype, k) in pl.wal_at_crash:
                    a = "wal_line_present_at_crash"
                elif (etype, k) in pl.wal_seen:
                    a = "wal_line_unlinked_before_crash"
                else:
                    a = "wal_line_never_seen"
                if phase != PHASES[0] and k in pl.present_after_crash.get(etype, set()):
                    a = "readable_after_crash_restart_then_lost"
                attrs.setdefault(a, []).append(k)
            for a, ks in attrs.items():
                res.violation("lost_after_restart", dict(sig_base, phase=phase, attribution=a),
                              f"{etype}: applied k={ks[:10]} missing ({len(rows)} rows) [{a}]", witness)
            out_ok = False
        if phase == PHASES[0]:
            pl.present_after_crash[etype] = set(by_k) | replay_ks
        if dup:
            res.violation("duplicated_after_restart", dict(sig_base, phase=phase), f"{etype}: k={dup[:10]} returned more than once", witness)
            out_ok = False
        if foreign:
            res.violation("foreign_or_torn_row", dict(sig_base, phase=phase), f"{etype}: k={foreign[:10]}", witness)
            out_ok = False
        for k, rs in by_k.items():
            op = A.get(k) or U.get(k)
            if not op:
                continue
            r = rs[0]
            fld = "v" if etype == "ev" else "n"
            if r.get("context_id") != op["ctx"] or r.get("event_type") != etype or r.get(fld) != vf(k):
                res.violation("corrupted_row", dict(sig_base, phase=phase), f"{etype}: k={k} row={r} expected ctx={op['ctx']} {fld}={vf(k)!r}", witness)
                out_ok = False
        # aggregates count each event exactly once
        if rows or A:
            rc = node.cmd(f"QUERY {etype} COUNT")
            if rc.ok and rc.rows:
                cnt = rc.rows[0][0] if rc.rows and rc.rows[0] else None
                distinct = len(by_k)
                if cnt != distinct:
                    other = node.cmd("QUERY ev2" if etype == "ev" else "QUERY ev")
                    nother = len({r.get("k") for r in other.dicts()}) if other.rows is not None else 0
                    if isinstance(cnt, int) and cnt > distinct:
                        how = "more_than_distinct"
                    else:
                        how = "less_than_distinct"
                    res.violation("count_disagrees", dict(sig_base, phase=phase, how=how),
                                  f"{etype}: COUNT={cnt} distinct events={distinct} (other type has {nother})", witness)
                    out_ok = False
        # REPLAY per context
        if True:
            for ctx in sorted({op["ctx"] for op in list(A.values()) + list(U.values())}):
                rp = replayed[ctx]
                if rp.rows is None:
                    if any(op["ctx"] == ctx for op in A.values()) and not lost:
                        res.violation("replay_failed", dict(sig_base, phase=phase), f"REPLAY {etype} FOR {ctx}: {rp!r}", witness)
                    continue
                ks = [r.get("k") for r in rp.dicts()]
                want = sorted(k for k, rs in by_k.items() if rs[0].get("context_id") == ctx)
                if sorted(ks) != want:
                    dups = len(ks) != len(set(ks))
                    res.violation("replay_differs_from_query", dict(sig_base, phase=phase, replay_dups=dups),
                                  f"REPLAY {etype} FOR {ctx}: {sorted(ks)[:12]} vs QUERY {want[:12]}", witness)
                    out_ok = False
    return out_ok


def make_history(tmpl, seed, buffered):
    rng = random.Random(seed)
    cfg = C.gen_cfg(rng, buffered)
    ops = C.TEMPLATES[tmpl](rng, cfg)
    return cfg, ops


def dry_task(task, wdir, res):
    cfg, ops = make_history(task["tmpl"], task["seed"], task["buffered"])
    lt = Lifetimes(wdir, **cfg)
    try:
        pl = C.play(lt, ops, crash=None, trace=True)
    finally:
        lt.stop()
    res.count("tasks"); res.count("dry_runs")
    pts = C.enumerate_points(pl.trace or [])
    res.add_set("plan", json.dumps([task["tmpl"], task["seed"], task["buffered"], sorted(pts.items())]))


def crash_task(task, wdir, res):
    cfg, ops = make_history(task["tmpl"], task["seed"], task["buffered"])
    crash = {"point": task["point"], "nth": task["nth"]}
    lt = Lifetimes(wdir, **cfg)
    res.count("tasks"); res.count("crash_runs")
    witness = {"template": task["tmpl"], "seed": task["seed"], "buffered": task["buffered"], "config": cfg, "crash": crash,
               "ops": [C.store_text(o) if o["op"] == "store" else o["op"] for o in ops]}
    sig_base = {"template": task["tmpl"], "group": C.point_group(task["point"]), "buffered": task["buffered"]}
    try:
        pl = C.play(lt, ops, crash=crash)
        if task["point"] != "kill" and not pl.fired:
            res.count("armed_but_not_fired")
        else:
            res.nontrivial((task["tmpl"], task["point"]))
            res.add_set("points_fired", task["point"])
        res.count("applied_events", len(pl.applied)); res.count("open_events", len(pl.open))
        sig_base["unindexed_dir_at_crash"] = pl.unindexed_dir_at_crash
        witness["died_at_op"] = pl.died_at
        witness["applied"] = sorted(pl.applied); witness["open"] = sorted(pl.open)
        node = lt.start()
        verify(node, pl, res, PHASES[0], sig_base, witness, task["buffered"])
        # duplicates may only materialise when the recovered memtable is flushed next to a published segment
        rep = node.cmd("FLUSH", timeout=60)
        node.syncflush()
        lt.compact_all(1)
        verify(node, pl, res, PHASES[1], sig_base, witness, False if not task["buffered"] else True)
        node = lt.restart_clean()
        verify(node, pl, res, PHASES[2], sig_base, witness, False if not task["buffered"] else True)
        res.sample({"template": task["tmpl"], "config": cfg, "crash": crash, "fired": pl.fired, "applied": len(pl.applied), "open": len(pl.open)})
    finally:
        lt.stop()


def run(run):
    quick = run.tier == "quick"
    tmpls = list(C.TEMPLATES)
    reps = 1 if quick else 4
    dry = []
    for t in tmpls:
        # the templates in which the unchanged tree loses nothing get more histories: they carry the detection power
        n_t = reps * (3 if t in ("auto", "auto_crash_auto") else 1)
        for r in range(n_t):
            dry.append({"name": f"dry-{t}-{r}", "tmpl": t, "seed": run.rng("h", t, r).getrandbits(40), "buffered": False})
    if not quick:
        for t in tmpls:
            for r in range(3):
                dry.append({"name": f"dryb-{t}-{r}", "tmpl": t, "seed": run.rng("hb", t, r).getrandbits(40), "buffered": True})
    run.parallel(dry_task, dry)
    plans = [json.loads(x) for x in run.result.sets.pop("plan", set())]
    tasks = []
    cap = 2 if quick else 10
    for tmpl, seed, buffered, pts in sorted(plans):
        tasks.append({"name": f"{tmpl}-kill", "tmpl": tmpl, "seed": seed, "buffered": buffered, "point": "kill", "nth": 0})
        for point, count in pts:
            hits = sorted({1, count}) if quick else sorted(set(list(range(1, min(count, cap) + 1)) + [count]))
            for n in hits[:cap]:
                tasks.append({"name": f"{tmpl}-{point}-{n}", "tmpl": tmpl, "seed": seed, "buffered": buffered, "point": point, "nth": n})
    run.result.counters["planned_crash_runs"] = len(tasks)
    run.min_distinct = 40
    run.assumptions = ["'applied' = acknowledged and followed by a completed mailbox+WAL-drained barrier (or FLUSH) before the crash; "
                       "acknowledged STOREs without a later barrier are 'open' (may be absent, never duplicated/corrupted)",
                       "process crash = _exit(137) at the hook point (no unwinding, no user-space buffer flush) or SIGKILL; power loss / fsync ordering not modelled"]
    run.parallel(crash_task, tasks)
    # a flush whose index update meets a compaction hand-over on the same shard (one side parked at a step point), then SIGKILL and
    # restart: every acknowledged event is still there (the segment index is the only record of a flushed segment once its WAL is pruned)
    from . import c11
    otasks = []
    for rep in range(1 if quick else 6):
        for side, pts in (("flush", ["fr.before_index", "idx.tmp_written", "idx.renamed", "fr.index_added", "fl.verified", "fl.published"]),
                          ("handover", ["ho.before_lock", "ho.locked", "ho.before_save", "ho.saved"])):
            for pnt in pts:
                otasks.append({"name": f"ov-{side}-{pnt}-{rep}", "seed": run.rng("ov", side, pnt, rep).getrandbits(40), "side": side, "point": pnt,
                               "restart": "kill"})
    run.parallel(c11.overlap_task, otasks)


def replay(run, path):
    with open(path) as f:
        w = json.load(f)["witness"]
    if w.get("mode") == "overlap":
        from . import c11
        run.parallel(c11.overlap_task, [{"name": "replay", "seed": w["seed"], "side": w["parked"][0], "point": w["parked"][1], "restart": w.get("restart", "kill")}], nproc=1)
        return
    t = {"name": "replay", "tmpl": w["template"], "seed": w["seed"], "buffered": w["buffered"], "point": w["crash"]["point"], "nth": w["crash"]["nth"]}
    run.parallel(crash_task, [t], nproc=1)
