"""C12 - all events of a context live on one shard (stable across lifetimes); unscoped reads cover all shards."""
import glob
import json
import os
import re

from . import gen
from .hist import Lifetimes, must_ok

RULE = ("history = shard count in {1,2,3,5,8,16} x generated context ids of several shapes x 3 process lifetimes storing to the same "
        "contexts; per context the shard tag (bits 12..21 of event_id) over all lifetimes, the shard-N directory of its WAL lines, "
        "scoped QUERY/REPLAY FOR ctx and the unscoped QUERY are checked; distinct_nontrivial counts distinct (context shape, shard "
        "count) pairs whose context received events in >=2 lifetimes")


def shard_of(eid):
    return (int(eid) >> 12) & 0x3FF


def context_ids(rng):
    base = [("a", "single_char"), ("user-1", "word"), ("User-1", "case_variant"), ("USER-1", "case_variant"),
            ("x" * 1024, "long_1k"), ("x" * 1023 + "y", "long_1k_lastbyte"), ("user 1", "space"), (" user-1", "leading_space"),
            ("user-1 ", "trailing_space"), ("user:ext:42", "colon"), ("ünï-cödé", "unicode"), ("用户", "unicode"),
            ("ctx-a", "last_byte"), ("ctx-b", "last_byte"), ("ctx-c", "last_byte"), ("0", "digit"), ("_", "underscore"),
            ("a.b", "dot"), ("semi;colon", "punct"), ("tab\tsep", "tab"), ("emoji🚀", "unicode4")]
    extra = [(f"c{rng.randint(0, 10 ** 6)}", "random") for _ in range(12)]
    pick = rng.sample(base, rng.randint(8, len(base))) + extra
    return pick


def ctx_tok(c):
    return gen.ctx_token(c)


def history_task(task, wdir, res):
    import random
    rng = random.Random(task["seed"])
    shards = task["shards"]
    cfg = dict(shard_count=shards, event_per_zone=rng.choice([1, 2, 4]), fill_factor=rng.choice([1, 2, 50]), segments_per_merge=2)
    ctxs = context_ids(rng)
    res.count("tasks"); res.count("histories")
    lt = Lifetimes(wdir, **cfg)
    witness = {"seed": task["seed"], "config": cfg}
    node = lt.start()
    try:
        must_ok(node.cmd('DEFINE ev FIELDS { k: "int" }'), "define")
        k = 0
        stored = {}   # ctx -> list of k
        tags = {}     # ctx -> {lifetime: set(tags)}
        for life in range(3):
            if life > 0:
                node = lt.restart_clean()   # crash restarts belong to C01 (open WAL-loss findings would mask routing)
            for c, shape in ctxs:
                if rng.random() < 0.75:
                    for _ in range(rng.randint(1, 2)):
                        k += 1
                        rep = node.cmd(f"STORE ev FOR {ctx_tok(c)} PAYLOAD {{\"k\":{k}}}")
                        if not rep.ok:
                            res.add_set("rejected_context_shapes", shape)
                            k -= 0
                            continue
                        stored.setdefault(c, []).append(k)
            node.syncflush()
            # WAL placement (before any manual flush removes logs)
            for p in glob.glob(os.path.join(wdir, "wal", "shard-*", "wal-*.log")):
                sh = int(re.search(r"shard-(\d+)", p).group(1))
                try:
                    for line in open(p, encoding="utf-8", errors="replace"):
                        try:
                            o = json.loads(line)
                        except ValueError:
                            continue
                        eid = o.get("event_id")
                        if eid and shard_of(eid) != sh:
                            res.violation("wal_line_in_foreign_shard_dir", {"shards": shards},
                                          f"event_id {eid} (tag {shard_of(eid)}) found in {p}", witness)
                        res.evaluations += 1
                except OSError:
                    pass
            rep = node.cmd("QUERY ev")
            if not rep.ok or rep.rows is None:
                res.violation("read_failed", {"what": "unscoped"}, repr(rep), witness)
                continue
            rows = rep.dicts()
            by_ctx = {}
            for r in rows:
                by_ctx.setdefault(r["context_id"], []).append(r)
            # unscoped = union
            all_k = sorted(x for v in stored.values() for x in v)
            got_k = sorted(r["k"] for r in rows)
            res.evaluations += 1
            if got_k != all_k:
                miss = sorted(set(all_k) - set(got_k))
                extra = sorted(set(got_k) - set(all_k))
                dup = len(got_k) - len(set(got_k))
                # which shards are missing entirely?
                res.violation("unscoped_not_union", {"shards": shards, "missing": bool(miss), "extra": bool(extra), "dup": dup > 0,
                                                     "after": "restart" if life else "first"},
                              f"lifetime {life}: missing={miss[:10]} extra={extra[:10]} dups={dup}", witness)
            # the unscoped top-n (descending; the ascending top-k pre-selection is a listed C10 finding) is the top-n of the union:
            # the newest events sit in memory on some shards while older ones are in segments of others
            for lim in (1, 2, 3):
                q = f"QUERY ev ORDER BY k DESC LIMIT {lim}"
                rp = node.cmd(q)
                res.evaluations += 1
                gk = [r["k"] for r in rp.dicts()] if rp.ok and rp.rows is not None else None
                want = sorted(all_k, reverse=True)[:lim]
                if gk != want:
                    st = node.meta("state")
                    res.violation("unscoped_top_n_not_of_union", {"shards": shards, "after": "restart" if life else "first"},
                                  f"lifetime {life}: {q} -> {gk} expected {want}; shard states "
                                  f"(shard, live segments) {[(sh.get('shard'), len(sh.get('live', []))) for sh in st]}", witness)
                else:
                    res.add_set("top_n_layouts", f"{shards}:{lim}")
            for c, shape in ctxs:
                ks = stored.get(c, [])
                rs = by_ctx.get(c, [])
                t = {shard_of(r["event_id"]) for r in rs}
                if t:
                    tags.setdefault(c, {})[life] = t
                if len(t) > 1:
                    res.violation("context_on_two_shards", {"shards": shards, "shape": shape, "when": "one_read"},
                                  f"ctx={c[:40]!r} tags={sorted(t)}", witness)
                # scoped reads
                if ks and rng.random() < 0.6:
                    for form in ("QUERY ev FOR", "REPLAY FOR"):
                        q = f"{form} {ctx_tok(c)}"
                        rp = node.cmd(q)
                        res.evaluations += 1
                        gk = sorted(r["k"] for r in rp.dicts()) if rp.ok and rp.rows is not None else None
                        if gk != sorted(ks):
                            res.violation("scoped_read_wrong", {"shards": shards, "shape": shape, "form": form.split()[0]},
                                          f"{q[:80]} -> {gk if gk is None else gk[:10]} expected {sorted(ks)[:10]} ({rp!r})", witness)
        for c, shape in ctxs:
            per = tags.get(c, {})
            allt = set().union(*per.values()) if per else set()
            if len(per) >= 2:
                res.nontrivial((shape, shards))
            if len(allt) > 1:
                res.violation("context_on_two_shards", {"shards": shards, "shape": shape, "when": "across_lifetimes"},
                              f"ctx={c[:40]!r} tags per lifetime={ {l: sorted(t) for l, t in per.items()} }", witness)
            for t in allt:
                if t >= shards:
                    res.violation("shard_tag_out_of_range", {"shards": shards}, f"ctx={c[:40]!r} tag={t}", witness)
        used = {t for per in tags.values() for ts in per.values() for t in ts}
        res.add_set("shards_used", f"{shards}:{len(used)}")
        res.sample({"shards": shards, "contexts": [c[:30] for c, _ in ctxs[:6]], "tags": {c[:20]: sorted(set().union(*p.values())) for c, p in list(tags.items())[:6]}})
    finally:
        lt.stop()


def burst_task(task, wdir, res):
    """A long burst of STOREs to one context while the wall clock is behind the shard's newest id (NTP step back): the shard
    tag of the ids (and so the context's shard) must not change, scoped reads return all of them, the unscoped read the union."""
    import random
    rng = random.Random(task["seed"])
    shards = task["shards"]
    # memtable capacity above the burst size: no auto-flush runs while the reads are issued (reads during a flush are C03's subject)
    cfg = dict(shard_count=shards, event_per_zone=64, fill_factor=200, segments_per_merge=2)
    res.count("tasks"); res.count("burst_histories")
    lt = Lifetimes(wdir, **cfg)
    witness = {"seed": task["seed"], "config": cfg, "mode": "burst", "n": task["n"]}
    node = lt.start()
    try:
        must_ok(node.cmd('DEFINE ev FIELDS { k: "int" }'), "define")
        base = 1700000000000
        node.meta(f"clock auto {base} 1")
        ctxs = [f"b{j}" for j in range(shards * 3)]
        k = 0
        tag_of = {}
        for c in ctxs:                     # one event per context at the normal clock: where does each context live?
            k += 1
            must_ok(node.cmd(f'STORE ev FOR {c} PAYLOAD {{"k":{k}}}'), "store")
        rows = node.cmd("QUERY ev").dicts()
        for r in rows:
            tag_of.setdefault(r["context_id"], set()).add(shard_of(r["event_id"]))
        # half of the bursts go to shard 0 (whose tag bits are all zero: anything that spills into them shows), half to a random shard
        on0 = [c for c in ctxs if tag_of.get(c) == {0}]
        victim = rng.choice(on0) if (on0 and task.get("n", 0) < 5000) else rng.choice(ctxs)
        back = rng.choice([60_000, 120_000])
        now = int(node.meta("clock peek").get("now") or base)
        node.meta(f"clock auto {now - back} 1")     # the clock steps back; every read advances it by 1 ms
        stored = {c: [i + 1] for i, c in enumerate(ctxs)}
        for _ in range(task["n"]):
            k += 1
            must_ok(node.cmd(f'STORE ev FOR {victim} PAYLOAD {{"k":{k}}}'), "store")
            stored[victim].append(k)
        behind = int(node.meta("clock peek").get("now") or 0) < now
        res.add_set("burst_under_clock", f"{shards}:{'still_behind' if behind else 'caught_up'}:{task['n']}")
        for c in rng.sample(ctxs, min(4, len(ctxs))):      # neighbours written after the burst
            k += 1
            must_ok(node.cmd(f'STORE ev FOR {c} PAYLOAD {{"k":{k}}}'), "store")
            stored[c].append(k)
        node.syncflush()
        rep = node.cmd("QUERY ev", timeout=120)
        res.evaluations += 1
        rows = rep.dicts() if rep.ok and rep.rows is not None else []
        all_k = sorted(x for v in stored.values() for x in v)
        got_k = sorted(r["k"] for r in rows)
        sig = {"shards": shards, "mode": "burst"}
        if got_k != all_k:
            miss = sorted(set(all_k) - set(got_k))
            res.violation("unscoped_not_union", dict(sig, missing=bool(miss), extra=bool(set(got_k) - set(all_k)), dup=len(got_k) != len(set(got_k)), after="burst"),
                          f"burst of {task['n']} to {victim} under a clock {back} ms behind: {len(miss)} events missing (first k={miss[:6]}), {len(got_k)} rows", witness)
        tags = {}
        for r in rows:
            tags.setdefault(r["context_id"], set()).add(shard_of(r["event_id"]))
        for c, t in tags.items():
            res.evaluations += 1
            if len(t) > 1 or (c in tag_of and t != tag_of[c]):
                res.violation("context_on_two_shards", dict(sig, shape="random", when="burst_under_clock_step"),
                              f"ctx={c} tags={sorted(t)} (before the burst {sorted(tag_of.get(c, []))})", witness)
            if any(x >= shards for x in t):
                res.violation("shard_tag_out_of_range", sig, f"ctx={c} tags={sorted(t)}", witness)
        rp = node.cmd(f"QUERY ev FOR {victim}", timeout=120)
        res.evaluations += 1
        gk = sorted(r["k"] for r in rp.dicts()) if rp.ok and rp.rows is not None else None
        if gk != sorted(stored[victim]):
            res.violation("scoped_read_wrong", dict(sig, shape="random", form="QUERY"), f"QUERY ev FOR {victim}: {None if gk is None else len(gk)} rows, expected {len(stored[victim])}", witness)
        res.nontrivial(("burst", shards, task["n"] > 4096, behind))
        res.sample({"mode": "burst", "shards": shards, "n": task["n"], "clock_still_behind_after_burst": behind})
    finally:
        lt.stop()


def run(run):
    nb = 2 if run.tier == "quick" else 16
    run.parallel(burst_task, [{"name": f"b{i}", "seed": run.rng("burst", i).getrandbits(48), "shards": [2, 3, 4, 8][i % 4], "n": [4300, 8300][i % 2]}
                              for i in range(nb)])
    counts = [1, 2, 3, 5, 8, 16]
    n = 18 if run.tier == "quick" else 300
    tasks = [{"name": f"h{i}", "seed": run.rng("hist", i).getrandbits(48), "shards": counts[i % len(counts)]} for i in range(n)]
    run.min_distinct = 20
    run.assumptions = ["shard tag = bits 12..21 of event_id (event_id.rs)", "context ids that STORE rejects are skipped and listed in distinct_sets"]
    run.parallel(history_task, tasks)


def replay(run, path):
    with open(path) as f:
        w = json.load(f)
    if w["witness"].get("mode") == "burst":
        run.parallel(burst_task, [{"name": "replay", "seed": w["witness"]["seed"], "shards": w["witness"]["config"]["shard_count"], "n": w["witness"]["n"]}], nproc=1)
        return
    run.parallel(history_task, [{"name": "replay", "seed": w["witness"]["seed"], "shards": w["witness"]["config"]["shard_count"]}], nproc=1)
