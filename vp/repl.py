"""Ad-hoc driver: python3 -m vp.repl <dir> [cfg k=v ...] < commands (lines; '@x' meta; '!restart', '!kill')."""
import sys, json, shutil
from .node import Node
from .hist import Lifetimes

def main():
    root = sys.argv[1]
    cfg = {}
    for a in sys.argv[2:]:
        k, v = a.split("=")
        cfg[k] = json.loads(v)
    shutil.rmtree(root, ignore_errors=True)
    lt = Lifetimes(root, **cfg)
    n = lt.start()
    for line in sys.stdin:
        line = line.rstrip("\n")
        if not line or line.startswith("#"):
            continue
        if line == "!restart":
            n = lt.restart_clean(); print("-- restarted clean"); continue
        if line == "!kill":
            n = lt.restart_kill(); print("-- killed+restarted"); continue
        if line.startswith("@"):
            print(line, "->", json.dumps(n.meta(line[1:]))[:3000]); continue
        r = n.cmd(line)
        print(line[:200], "->", r.status, (r.message or ""), "" if r.rows is None else json.dumps([r.columns and [c[0] for c in r.columns], r.rows])[:3000], "" if r.results in (None, []) else json.dumps(r.results)[:2000])
    lt.stop()
main()
