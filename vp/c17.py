"""C17 - parsing and dispatch are total; the parser preserves structure."""
import json
import os
import random
import subprocess
import time

from . import gen
from .hist import Lifetimes, must_ok
from .node import VUNIT, Inconclusive

RULE = ("parse: random character strings, grammar-derived commands of every family (DEFINE / STORE / QUERY with every clause / sequence "
        "queries / REPLAY / REMEMBER / SHOW / FLUSH / PING / BATCH / PLOT / user and permission management) and mutations of them (number "
        "widening, sign flips, nesting of parentheses and NOT to depth 10..20000, unterminated strings/JSON, non-ASCII, keywords as "
        "identifiers, random case) are parsed by the repo's parse_command in child processes (panic hook + abort attribution); "
        "structure: generated expression trees printed with minimal parentheses, random keyword case and redundant parentheses must parse "
        "to the same tree; two spellings of one command must parse to equal Commands; dispatch: every parsed command is dispatched against "
        "a live engine; distinct_nontrivial counts distinct (family, generator, outcome) classes of inputs")

KW = ["QUERY", "WHERE", "AND", "OR", "NOT", "IN", "FOR", "SINCE", "USING", "RETURN", "LIMIT", "OFFSET", "ORDER", "BY", "DESC", "ASC", "COUNT",
      "UNIQUE", "TOTAL", "AVG", "MIN", "MAX", "PER", "DAY", "HOUR", "WEEK", "MONTH", "FOLLOWED", "PRECEDED", "LINKED", "DEFINE", "FIELDS",
      "STORE", "PAYLOAD", "REPLAY", "REMEMBER", "AS", "SHOW", "FLUSH", "PING", "BATCH", "CREATE", "USER", "WITH", "KEY", "ROLES", "REVOKE",
      "LIST", "USERS", "GRANT", "READ", "WRITE", "ON", "TO", "FROM", "PERMISSIONS", "PLOT"]


def rcase(rng, w):
    m = rng.random()
    if m < 0.4:
        return w
    if m < 0.6:
        return w.lower()
    return "".join(c.upper() if rng.random() < 0.5 else c.lower() for c in w)


# ---- expression ASTs ---------------------------------------------------------------------------
def gen_expr(rng, depth):
    if depth == 0 or rng.random() < 0.3:
        f = rng.choice(["a", "b", "status", "amount", "x1", "ev.field"])
        if rng.random() < 0.15:
            vals = [rng.choice([1, 2, 3, "x", "y z"]) for _ in range(rng.randint(1, 3))]
            return ("in", f, vals)
        op = rng.choice(["=", "!=", ">", ">=", "<", "<="])
        v = rng.choice([0, 7, -3, 2.5, "NL", "a b", "word", "true"])
        return ("cmp", f, op, v)
    r = rng.random()
    if r < 0.25:
        return ("not", gen_expr(rng, depth - 1))
    return ("and" if r < 0.62 else "or", gen_expr(rng, depth - 1), gen_expr(rng, depth - 1))


LIT_SUB = None     # when set: {original string value: replacement} applied to every string literal the generators print

# contents that must stay inert inside a quoted literal: characters whose case mappings change their UTF-8 length, keywords,
# clause separators, brackets
EXOTIC = ["Diyarbakır", "ŉ boek", "Iğdır, Ağrı", "ﬁn ﬂ", "ǰΐև", "İstanbul", "K Å", "ß", "é", "日本", "🚀", " AS ", "x AS y", "as", "WHERE",
          "a;b", "a]b", "a)b(", "{x}", "a,b", "--", "#", "'", "% _", "SELECT", "a=b", "NOT", "AND (", " LIMIT 1", "ı" * 40, "ﬁ" * 17 + " AS z"]


def lit(v, rng=None):
    if isinstance(v, str) and LIT_SUB and v in LIT_SUB:
        return '"' + LIT_SUB[v] + '"'
    if isinstance(v, str):
        if rng is not None and v.isidentifier() and rng.random() < 0.3:
            return v       # bare word = string
        return '"' + v + '"'
    return repr(v) if not isinstance(v, float) else ("%.2f" % v).rstrip("0").rstrip(".") if v != int(v) else "%.1f" % v


PREC = {"or": 1, "and": 2, "not": 3, "cmp": 4, "in": 4}


def print_expr(e, rng, parent=0, redundant=0.0):
    k = e[0]
    if k == "cmp":
        sp = rng.choice(["", " "])
        s = f"{e[1]}{sp}{e[2]}{sp}{lit(e[3])}"
    elif k == "in":
        s = f"{e[1]} {rcase(rng, 'IN')} (" + ", ".join(lit(v) for v in e[2]) + ")"
    elif k == "not":
        s = f"{rcase(rng, 'NOT')} " + print_expr(e[1], rng, PREC["not"], redundant)
    else:
        # same-operator children are parenthesised explicitly so that associativity is not in question
        a = print_expr(e[1], rng, PREC[k] + (1 if e[1][0] == k else 0), redundant)
        b = print_expr(e[2], rng, PREC[k] + (1 if e[2][0] == k else 0), redundant)
        s = f"{a} {rcase(rng, k.upper())} {b}"
    if PREC[k] < parent or rng.random() < redundant:
        return "(" + s + ")"
    return s


OPN = {"=": "Eq", "!=": "Neq", ">": "Gt", ">=": "Gte", "<": "Lt", "<=": "Lte"}


def expected_json(e):
    k = e[0]
    if k == "cmp":
        return {"Compare": {"field": e[1], "op": OPN[e[2]], "value": e[3]}}
    if k == "in":
        return {"In": {"field": e[1], "values": list(e[2])}}
    if k == "not":
        return {"Not": expected_json(e[1])}
    return {("And" if k == "and" else "Or"): [expected_json(e[1]), expected_json(e[2])]}


def norm_num(v):
    if isinstance(v, dict):
        return {k: norm_num(x) for k, x in v.items()}
    if isinstance(v, list):
        return [norm_num(x) for x in v]
    if isinstance(v, float) and v == int(v):
        return int(v)
    return v


# ---- grammar-derived commands --------------------------------------------------------------------
def gen_command(rng):
    """Returns (family, text)."""
    fam = rng.choice(["define", "store", "query", "query", "query_agg", "sequence", "replay", "remember", "show", "flush", "ping", "batch",
                      "create_user", "revoke_key", "list_users", "grant", "revoke", "show_permissions", "plot"])
    et = rng.choice(["ev", "order_created", "a1", "page_view"])
    ctx = rng.choice(["c1", "user-7", '"user:ext:42"', '"a b"'])
    if fam == "define":
        fields = ", ".join(f'{n}: {t}' for n, t in rng.sample([("k", '"int"'), ("s", '"string | null"'), ("f", '"float"'), ("b", '"bool"'),
                                                               ("e", '["x", "y"]'), ("t", '"datetime"'), ("d", '"date"'), ("u", '"u64"')], rng.randint(1, 5)))
        ver = f" {rcase(rng, 'AS')} {rng.randint(1, 9)}" if rng.random() < 0.3 else ""
        return fam, f"{rcase(rng, 'DEFINE')} {et}{ver} {rcase(rng, 'FIELDS')} {{ {fields} }}"
    if fam == "store":
        payload = {"k": rng.randint(-5, 5), "s": rng.choice(["x", "é", "a}b", "q\"uote"]), "f": rng.choice([1.5, 2.0, 1e3])}
        if LIT_SUB and payload["s"] in LIT_SUB:
            payload["s"] = LIT_SUB[payload["s"]]
        return fam, f"{rcase(rng, 'STORE')} {et} {rcase(rng, 'FOR')} {ctx} {rcase(rng, 'PAYLOAD')} {gen.payload_text(payload)}"
    if fam in ("query", "query_agg", "sequence"):
        s = f"{rcase(rng, rng.choice(['QUERY', 'FIND']))} {et}"
        if fam == "sequence":
            s += f" {rcase(rng, rng.choice(['FOLLOWED', 'PRECEDED']))} {rcase(rng, 'BY')} order_created {rcase(rng, 'LINKED')} {rcase(rng, 'BY')} user_id"
        clauses = []
        if rng.random() < 0.4:
            clauses.append(f"{rcase(rng, 'FOR')} {ctx}")
        if rng.random() < 0.3:
            clauses.append(f"{rcase(rng, 'SINCE')} " + rng.choice(['"2025-01-01T00:00:00Z"', '"1735689600"', '"2025-01-01T02:00:00+02:00"']))
        if rng.random() < 0.3:
            clauses.append(f"{rcase(rng, 'USING')} created_at")
        if rng.random() < 0.4 and fam != "query_agg":
            clauses.append(f"{rcase(rng, 'RETURN')} [" + ", ".join(rng.sample(["k", '"s"', "f", "context_id"], rng.randint(0, 3))) + "]")
        if rng.random() < 0.6:
            clauses.append(f"{rcase(rng, 'WHERE')} " + print_expr(gen_expr(rng, rng.randint(0, 3)), rng, 0, 0.1))
        if fam == "query_agg":
            mets = rng.sample(["COUNT", "COUNT UNIQUE k", "COUNT s", "TOTAL k", "AVG f", "MIN k", "MAX s"], rng.randint(1, 3))
            clauses.append(", ".join(" ".join(rcase(rng, w) if w.isupper() else w for w in m.split()) for m in mets))
            if rng.random() < 0.4:
                clauses.append(f"{rcase(rng, 'PER')} {rcase(rng, rng.choice(['HOUR', 'DAY', 'WEEK', 'MONTH']))}")
            if rng.random() < 0.5:
                clauses.append(f"{rcase(rng, 'BY')} " + ", ".join(rng.sample(["s", "b", "e"], rng.randint(1, 2))))
        else:
            if rng.random() < 0.3:
                clauses.append(f"{rcase(rng, 'ORDER')} {rcase(rng, 'BY')} k" + rng.choice(["", " DESC", " ASC"]))
        if rng.random() < 0.4:
            clauses.append(f"{rcase(rng, 'LIMIT')} {rng.choice([0, 1, 10, 4294967295])}")
            if rng.random() < 0.4:
                clauses.append(f"{rcase(rng, 'OFFSET')} {rng.choice([0, 1, 5])}")
        return fam, s + " " + " ".join(clauses)
    if fam == "replay":
        s = f"{rcase(rng, 'REPLAY')} " + (et + " " if rng.random() < 0.5 else "") + f"{rcase(rng, 'FOR')} {ctx}"
        if rng.random() < 0.4:
            s += f' {rcase(rng, "SINCE")} "2025-01-01T00:00:00Z"'
        if rng.random() < 0.4:
            s += f" {rcase(rng, 'RETURN')} [k, s]"
        return fam, s
    if fam == "remember":
        cond = f"k > {rng.randint(0, 9)}" if rng.random() < 0.4 else print_expr(gen_expr(rng, rng.randint(0, 2)), rng, 0, 0.1)
        return fam, f"{rcase(rng, 'REMEMBER')} {rcase(rng, 'QUERY')} {et} {rcase(rng, 'WHERE')} {cond} {rcase(rng, 'AS')} m{rng.randint(0, 99)}"
    if fam == "show":
        return fam, f"{rcase(rng, 'SHOW')} m{rng.randint(0, 99)}"
    if fam == "flush":
        return fam, rcase(rng, "FLUSH")
    if fam == "ping":
        return fam, rcase(rng, "PING")
    if fam == "batch":
        inner = "; ".join(gen_command(random.Random(rng.random()))[1] for _ in range(rng.randint(1, 3)))
        return fam, f"{rcase(rng, 'BATCH')} [ {inner} ]"
    if fam == "create_user":
        s = f"{rcase(rng, 'CREATE')} {rcase(rng, 'USER')} " + rng.choice(["api_client", '"service-account"', "u1"])
        if rng.random() < 0.5:
            s += f' {rcase(rng, "WITH")} {rcase(rng, "KEY")} "secret{rng.randint(0, 9)}"'
        if rng.random() < 0.5:
            s += f' {rcase(rng, "WITH")} {rcase(rng, "ROLES")} [' + ", ".join(rng.sample(['"admin"', '"read-only"', '"editor"', '"viewer"', '"write-only"'], rng.randint(1, 2))) + "]"
        return fam, s
    if fam == "revoke_key":
        return fam, f"{rcase(rng, 'REVOKE')} {rcase(rng, 'KEY')} api_client"
    if fam == "list_users":
        return fam, f"{rcase(rng, 'LIST')} {rcase(rng, 'USERS')}"
    if fam == "grant":
        return fam, f"{rcase(rng, 'GRANT')} " + rng.choice(["READ", "WRITE", "READ, WRITE"]) + f" {rcase(rng, 'ON')} {et}, a1 {rcase(rng, 'TO')} api_client"
    if fam == "revoke":
        return fam, f"{rcase(rng, 'REVOKE')} " + rng.choice(["READ ", "WRITE ", "READ, WRITE ", ""]) + f"{rcase(rng, 'ON')} {et} {rcase(rng, 'FROM')} api_client"
    if fam == "show_permissions":
        return fam, f"{rcase(rng, 'SHOW')} {rcase(rng, 'PERMISSIONS')} {rcase(rng, 'FOR')} api_client"
    return fam, f"{rcase(rng, 'PLOT')} {rcase(rng, 'TOTAL')} amount {rcase(rng, 'OF')} {et} {rcase(rng, 'OVER')} {rcase(rng, 'DAY')}(created_at)"


def mutate(rng, text):
    """Returns (mutator, text)."""
    m = rng.choice(["widen_number", "sign_flip", "nest_parens", "nest_not", "unterminated_string", "unterminated_json", "non_ascii",
                    "keyword_as_ident", "truncate", "duplicate_clause", "huge_limit", "delete_char", "insert_char", "deep_json"])
    import re
    if m == "widen_number":
        big = rng.choice(["99999999999", "99999999999999999999", "340282366920938463463374607431768211456", "1e400", "0.000000000000000000000000000001",
                          "-99999999999999999999", "4294967296", "18446744073709551616"])
        t2, n = re.subn(r"\b\d+(\.\d+)?\b", big, text, count=1)
        return m, t2 if n else text + " LIMIT " + big
    if m == "sign_flip":
        t2, n = re.subn(r"(?<![\w.])(\d)", r"-\1", text, count=1)
        return m, t2
    if m in ("nest_parens", "nest_not"):
        d = rng.choice([10, 100, 1000, 20000, 100000])
        nest = ("(" * d + "a = 1" + ")" * d) if m == "nest_parens" else ("NOT " * d + "a = 1")
        # lexical context in front of the nest: literals that a pre-scan and the grammar may delimit differently
        lit = rng.choice([None, None, '"x"', '"x\\"', '"x\\\\"', '"a\\"b"', '"(("', '"NOT NOT ("', "'x'", "'x\\'", '"é("', '""'])
        if lit is None:
            return m + f"_{d}", "QUERY ev WHERE " + nest
        form = rng.choice(["where_and", "where_or", "for", "since"])
        if form == "where_and":
            t = f"QUERY ev WHERE s = {lit} AND {nest}"
        elif form == "where_or":
            t = f"QUERY ev WHERE s != {lit} OR {nest}"
        elif form == "for":
            t = f"QUERY ev FOR {lit} WHERE {nest}"
        else:
            t = f"QUERY ev SINCE {lit} WHERE {nest}"
        return m + f"_{d}_after_literal", t
    if m == "unterminated_string":
        return m, text + ' WHERE s = "unterminated'
    if m == "unterminated_json":
        return m, 'STORE ev FOR c1 PAYLOAD {"k": 1, "s": {"a": ['
    if m == "deep_json":
        d = rng.choice([10, 1000, 50000, 200000])
        pre = rng.choice(['', '', '"s":"x",', '"s":"x\\\\",', '"s":"a\\"b",', '"s":"[[{{",', '"s":"\\\\\\"",'])
        br = rng.choice(["[]", "[]", "{}"])
        body = (br[0] * d + br[1] * d) if br == "[]" else ('{"a":' * d + "1" + "}" * d)
        # the context id is the other literal in front of the payload (delimited by the command grammar, not by JSON rules)
        ctxlit = rng.choice(["c1", "c1", '"x"', '"a\\"', '"a\\\\"', '"{["', '"a\\" x"'])
        return m + f"_{d}" + ("_after_literal" if (pre or ctxlit != "c1") else ""), f'STORE ev FOR {ctxlit} PAYLOAD {{' + pre + '"k":' + body + "}"
    if m == "non_ascii":
        pos = rng.randint(0, len(text))
        return m, text[:pos] + rng.choice(["é", "日本", "🚀", "​", "\u0000", "﻿"]) + text[pos:]
    if m == "keyword_as_ident":
        return m, f"QUERY {rng.choice(KW).lower()} WHERE {rng.choice(KW).lower()} = {rng.choice(KW).lower()}"
    if m == "truncate":
        return m, text[:rng.randint(0, len(text))]
    if m == "duplicate_clause":
        return m, text + " LIMIT 1 LIMIT 2 WHERE a = 1 WHERE b = 2"
    if m == "huge_limit":
        return m, "QUERY ev LIMIT " + "9" * rng.choice([11, 20, 200])
    if m == "delete_char" and text:
        pos = rng.randrange(len(text))
        return m, text[:pos] + text[pos + 1:]
    pos = rng.randint(0, len(text))
    return "insert_char", text[:pos] + rng.choice(list("(){}[]\"':;,=<>!.-+*\\ \t")) + text[pos:]


def random_text(rng):
    n = rng.choice([0, 1, 5, 40, 200, 2000, 65536])
    mode = rng.random()
    if mode < 0.4:
        alpha = list("abcXYZ019 (){}[]\"',:;=<>!.-_\\\t") + KW
        return "".join(rng.choice(alpha) + (" " if rng.random() < 0.3 else "") for _ in range(min(n, 4000)))
    if mode < 0.7:
        return "".join(chr(rng.choice([rng.randint(32, 126), rng.randint(0x80, 0x2ff), rng.randint(0x4e00, 0x4e80), 0x1F680])) for _ in range(n))
    return rng.choice(KW) + " " + "".join(chr(rng.randint(32, 126)) for _ in range(min(n, 3000)))


# ---- running batches -----------------------------------------------------------------------------
def run_vunit(wdir, cfg_path, inputs, want_cmd, timeout):
    af = os.path.join(wdir, f"c17-{random.getrandbits(40)}.json")
    with open(af, "w") as f:
        json.dump({"inputs": inputs, "want_cmd": want_cmd}, f)
    env = dict(os.environ, SNELDB_CONFIG=cfg_path)
    t0 = time.time()
    try:
        pr = subprocess.run([VUNIT, "c17", af], env=env, capture_output=True, timeout=timeout)
    except subprocess.TimeoutExpired as e:
        err = (e.stderr or b"").decode("utf-8", "replace")
        last = [l for l in err.splitlines() if l.startswith("I ")]
        return None, ("timeout", int(last[-1][2:]) if last else 0, time.time() - t0)
    err = pr.stderr.decode("utf-8", "replace")
    if pr.returncode != 0:
        last = [l for l in err.splitlines() if l.startswith("I ")]
        return None, ("died", int(last[-1][2:]) if last else 0, pr.returncode, err[-300:])
    return json.loads(pr.stdout)["results"], None


def parse_task(task, wdir, res):
    rng = random.Random(task["seed"])
    from .node import write_config
    cfg_path, _ = write_config(wdir)
    res.count("tasks")
    items = []      # (family, generator, text)
    for _ in range(task["n"]):
        r = rng.random()
        if r < 0.25:
            items.append(("random", "random_text", random_text(rng)))
        else:
            fam, t = gen_command(rng)
            if r < 0.6:
                items.append((fam, "grammar", t))
            else:
                mname, t2 = mutate(rng, t)
                items.append((fam, "mut:" + mname, t2))
    pending = list(range(len(items)))
    verdict_cache = {}     # identical killer inputs are judged once
    while pending:
        batch = pending[:4000]
        known_bad = [i for i in batch if items[i][2] in verdict_cache]
        if known_bad:
            for i in known_bad:
                fam, g, text = items[i]
                res.evaluations += 1
                rule, fail = verdict_cache[text]
                if rule:
                    res.violation(rule, {"generator": g, "family": fam}, f"{len(text)} chars: {text[:80]!r}... -> child {fail}", {"input": text[:3000], "seed": task["seed"], "length": len(text)})
            kb = set(known_bad)
            pending = [x for x in pending if x not in kb]
            continue
        results, failure = run_vunit(wdir, cfg_path, [items[i][2] for i in batch], False, 120)
        if failure is None:
            for i, r in zip(batch, results):
                fam, g, text = items[i]
                res.evaluations += 1
                res.nontrivial((fam, g, r["r"]))
                if r["r"] == "panic":
                    loc = (r.get("loc") or "").split(": ")[0]
                    res.violation("parse_panicked", {"generator": g, "family": fam, "location": loc.replace("/repo/", "")},
                                  f"{text[:200]!r} -> panic at {r.get('loc', '')[:200]}", {"input": text[:5000], "seed": task["seed"]})
                elif r["ms"] > 20000:
                    res.violation("parse_too_slow", {"generator": g, "family": fam}, f"{len(text)} chars took {r['ms']:.0f} ms", {"input": text[:5000]})
            pending = pending[len(batch):]
        else:
            kind, idx = failure[0], failure[1]
            i = batch[min(idx, len(batch) - 1)]
            fam, g, text = items[i]
            # confirm in isolation (3x) before blaming the input
            confirmed = 0
            for _ in range(3):
                r2, f2 = run_vunit(wdir, cfg_path, [text], False, 60)
                if f2 is not None:
                    confirmed += 1
            res.evaluations += 1
            res.nontrivial((fam, g, kind))
            rule = None
            if confirmed == 3:
                rule = "parse_aborted_process" if kind == "died" else "parse_did_not_terminate"
                res.violation(rule, {"generator": g, "family": fam}, f"{len(text)} chars: {text[:80]!r}... -> child {failure}", {"input": text[:3000], "seed": task["seed"], "length": len(text)})
            elif confirmed:
                res.inconclusive.append(f"input {text[:60]!r} killed the parser child {confirmed}/3 times")
            verdict_cache[text] = (rule, failure)
            # only the killer is dropped: the inputs before it in the batch had no result reported and are retried
            pending = [x for x in pending if x != i]
    res.sample({"generator": items[0][1], "family": items[0][0], "text": items[0][2][:200]})


def structure_task(task, wdir, res):
    rng = random.Random(task["seed"])
    from .node import write_config
    cfg_path, _ = write_config(wdir)
    res.count("tasks")
    exprs = [gen_expr(rng, rng.randint(1, 4)) for _ in range(task["n"])]
    texts1 = ["QUERY ev WHERE " + print_expr(e, rng, 0, 0.0) for e in exprs]
    texts2 = [f"{rcase(rng, 'QUERY')}  ev   {rcase(rng, 'WHERE')} " + print_expr(e, rng, 0, 0.3) for e in exprs]
    r1, f1 = run_vunit(wdir, cfg_path, texts1, True, 120)
    r2, f2 = run_vunit(wdir, cfg_path, texts2, True, 120)
    if f1 or f2:
        res.inconclusive.append(f"structure batch failed: {f1 or f2}")
        return
    for e, t1, t2, a, b in zip(exprs, texts1, texts2, r1, r2):
        res.evaluations += 1
        shape = shape_of(e)
        res.nontrivial(("structure", shape, a["r"]))
        w = {"text_minimal": t1, "text_respelled": t2, "seed": task["seed"]}
        if a["r"] != "ok" or b["r"] != "ok":
            bad = a if a["r"] != "ok" else b
            res.violation("wellformed_rejected", {"shape": shape, "how": bad["r"]}, f"{t1 if bad is a else t2} -> {bad}", w)
            continue
        wa = norm_num(a["cmd"].get("Query", {}).get("where_clause"))
        wb = norm_num(b["cmd"].get("Query", {}).get("where_clause"))
        exp = norm_num(expected_json(e))
        if wa != exp:
            res.violation("tree_differs_from_printed_ast", {"shape": shape}, f"{t1}: parsed {json.dumps(wa)[:300]} expected {json.dumps(exp)[:300]}", w)
        if wa != wb or norm_num(a["cmd"]) != norm_num(b["cmd"]):
            res.violation("respelling_changes_command", {"shape": shape}, f"{t1!r} vs {t2!r}", w)
    # whole-command respelling: keyword case and whitespace must not matter
    cmds = []
    for _ in range(task["n"] // 2):
        seed = rng.random()
        fam, ta = gen_command(random.Random(seed))
        rr = random.Random(seed)
        rr.random_case = True
        fam2, tb = gen_command_plain(random.Random(seed))
        cmds.append((fam, ta, tb))
    ra, fa = run_vunit(wdir, cfg_path, [c[1] for c in cmds], True, 120)
    rb, fb = run_vunit(wdir, cfg_path, [c[2] for c in cmds], True, 120)
    if fa or fb:
        res.inconclusive.append(f"respelling batch failed: {fa or fb}")
        return
    for (fam, ta, tb), a, b in zip(cmds, ra, rb):
        res.evaluations += 1
        res.nontrivial(("respell", fam, a["r"], b["r"]))
        if a["r"] != b["r"] or (a["r"] == "ok" and norm_num(a["cmd"]) != norm_num(b["cmd"])):
            res.violation("keyword_case_changes_result", {"family": fam, "a": a["r"], "b": b["r"]}, f"{ta!r} -> {a['r']} ; {tb!r} -> {b['r']}",
                          {"a": ta, "b": tb, "seed": task["seed"]})
    # literal content invariance: what stands inside a quoted string literal must not change how the command around it is read
    global LIT_SUB
    SUBST = ["NL", "a b", "word", "x", "y z", "é", "a}b"]
    pairs = []
    tries = 0
    while len(pairs) < task["n"] // 2 and tries < task["n"] * 4:
        tries += 1
        seed = rng.random()
        LIT_SUB = None
        fam, ta = gen_command(random.Random(seed))
        if fam not in ("query", "query_agg", "sequence", "remember", "store"):
            continue
        ex = rng.choice(EXOTIC)
        mp = {v: ex + ("" if i == 0 else str(i)) for i, v in enumerate(SUBST)}
        LIT_SUB = mp
        try:
            _, tb = gen_command(random.Random(seed))
        finally:
            LIT_SUB = None
        if ta == tb:
            continue
        pairs.append((fam, ta, tb, mp, ex))
    ra, fa = run_vunit(wdir, cfg_path, [c[1] for c in pairs], True, 120)
    rb, fb = run_vunit(wdir, cfg_path, [c[2] for c in pairs], True, 120)
    if fa or fb:
        # a child that dies on one of these inputs is reported by name: rerun one by one
        for fam, ta, tb, mp, ex in pairs:
            r1_, f1_ = run_vunit(wdir, cfg_path, [tb], True, 60)
            if f1_ is not None:
                res.violation("parse_aborted_process", {"generator": "literal_content", "family": fam}, f"{tb[:200]!r} -> child {f1_}", {"input": tb, "seed": task["seed"]})
                return
        res.inconclusive.append(f"literal-content batch failed: {fa or fb}")
        return

    def subst(v, mp):
        if isinstance(v, dict):
            return {k: (x if k == "context_id" else subst(x, mp)) for k, x in v.items()}   # contexts are not printed through lit()
        if isinstance(v, list):
            return [subst(x, mp) for x in v]
        if isinstance(v, str) and v in mp:
            return mp[v]
        return v

    for (fam, ta, tb, mp, ex), a, b in zip(pairs, ra, rb):
        res.evaluations += 1
        res.nontrivial(("literal_content", fam, EXOTIC.index(ex), b["r"]))
        w = {"a": ta, "b": tb, "input": tb, "seed": task["seed"]}
        sg = {"family": fam, "content": "case_mapping_changes_length" if EXOTIC.index(ex) < 7 or "ı" in ex or "ﬁ" in ex else "ascii_syntax_like" if ex.isascii() else "other_unicode"}
        if b["r"] == "panic":
            res.violation("parse_panicked", dict(sg, generator="literal_content", location=(b.get("loc") or "").split(": ")[0].replace("/repo/", "")),
                          f"{tb[:200]!r} -> panic at {b.get('loc', '')[:200]}", w)
        elif a["r"] != b["r"]:
            res.violation("literal_content_changes_acceptance", sg, f"{ta!r} -> {a['r']} ; {tb!r} -> {b['r']} {str(b.get('msg', ''))[:120]}", w)
        elif a["r"] == "ok" and norm_num(subst(a["cmd"], mp)) != norm_num(b["cmd"]):
            res.violation("literal_content_changes_command", sg, f"{ta!r} vs {tb!r}: {json.dumps(b['cmd'], ensure_ascii=False)[:300]}", w)
    res.sample({"minimal": texts1[0], "respelled": texts2[0], "literal_pair": list(pairs[0][1:3]) if pairs else None})


def gen_command_plain(rng):
    """Same command as gen_command(rng) for the same PRNG state, but with canonical upper-case keywords."""
    global rcase
    saved = rcase
    try:
        def plain(r, w):
            r.random()          # consume the same amount of randomness
            # rcase draws more numbers in the mixed-case branch; keep streams aligned by replaying the original decision
            return w
        # simplest alignment: run the original generator with a wrapper that records keywords, then upper-case them
        rcase = lambda r, w: "\x01" + saved(r, w) + "\x02"
        fam, t = gen_command(rng)
    finally:
        rcase = saved
    import re
    return fam, re.sub("\x01(.*?)\x02", lambda m: m.group(1).upper(), t)


def shape_of(e):
    k = e[0]
    if k in ("cmp", "in"):
        return "L"
    if k == "not":
        return "N(" + shape_of(e[1]) + ")"
    return ("A" if k == "and" else "O") + "(" + shape_of(e[1]) + "," + shape_of(e[2]) + ")"


def dispatch_task(task, wdir, res):
    rng = random.Random(task["seed"])
    lt = Lifetimes(wdir, shard_count=2, event_per_zone=2, fill_factor=2, segments_per_merge=2)
    node = lt.start()
    res.count("tasks")
    try:
        must_ok(node.cmd('DEFINE ev FIELDS { k: "int", s: "string | null", f: "float", b: "bool", e: ["x", "y"], created_at: "datetime" }'), "define")
        must_ok(node.cmd('DEFINE order_created FIELDS { k: "int", user_id: "string", created_at: "datetime", amount: "float" }'), "define")
        must_ok(node.cmd('DEFINE page_view FIELDS { k: "int", user_id: "string", created_at: "datetime", amount: "float" }'), "define")
        for i in range(6):
            node.cmd(gen.store_cmd("ev", f"c{i % 2}", {"k": i, "s": "x", "f": 1.5, "b": True, "e": "x", "created_at": 1735689600 + i}))
        for i in range(task["n"]):
            fam, text = gen_command(rng)
            if rng.random() < 0.2:
                _, text = mutate(rng, text)
                if len(text) > 5000:
                    continue
            if "\n" in text or "\x00" in text:
                continue
            if not node.alive():
                node = lt.start()
            try:
                rep = node.cmd(text, timeout=30)
            except Inconclusive:
                res.violation("dispatch_did_not_answer", {"family": fam}, text[:300], {"input": text, "seed": task["seed"]})
                node.kill(); node = lt.start()
                continue
            except Exception as e:
                from .node import NodeDied
                if isinstance(e, NodeDied):
                    res.violation("dispatch_killed_process", {"family": fam}, f"{text[:300]} -> exit {e.code}", {"input": text, "seed": task["seed"]})
                    node = lt.start()
                    continue
                raise
            res.evaluations += 1
            res.nontrivial(("dispatch", fam, rep.kind, str(rep.status)[:3]))
            if rep.kind == "panic":
                where = "parse" if rep.message.startswith("parse") else "dispatch"
                res.violation("command_panicked", {"family": fam, "where": where}, f"{text[:300]} -> {rep.message[:200]}", {"input": text, "seed": task["seed"]})
            elif rep.kind == "ok" and len(rep.raw) == 0:
                res.violation("no_response_written", {"family": fam}, text[:300], {"input": text, "seed": task["seed"]})
        pan = [p for p in node.panics()]
        for pline in pan[:10]:
            res.add_set("background_panics", pline[:160])
        res.sample({"dispatched": task["n"]})
    finally:
        lt.stop()


def run(run):
    quick = run.tier == "quick"
    # the thorough tier scales the number of tasks, not their size: a task keeps all its inputs in memory (65 KiB random texts, 400 KB nests)
    run.parallel(parse_task, [{"name": f"p{i}", "seed": run.rng("p", i).getrandbits(40), "n": 20000} for i in range(16 if quick else 320)])
    run.parallel(structure_task, [{"name": f"s{i}", "seed": run.rng("s", i).getrandbits(40), "n": 1500} for i in range(8 if quick else 160)])
    run.parallel(dispatch_task, [{"name": f"d{i}", "seed": run.rng("d", i).getrandbits(40), "n": 200} for i in range(16 if quick else 320)])
    run.min_distinct = 60
    run.assumptions = ["termination is judged as bounded progress: a child that does not answer a batch within 120 s (or a single input within 60 s, "
                       "3 times in isolation) is a violation; once is inconclusive", "expected trees for same-operator chains are printed with explicit "
                       "parentheses, so no associativity is assumed"]


def replay(run, path):
    with open(path) as f:
        w = json.load(f)["witness"]
    text = w.get("input") or w.get("text_minimal") or w.get("a")

    def one(task, wdir, res):
        from .node import write_config
        cfg_path, _ = write_config(wdir)
        r, f = run_vunit(wdir, cfg_path, [text], True, 60)
        res.evaluations += 1
        res.nontrivial(("replay", 1)); res.nontrivial(("replay", 2))
        print("replay result:", (r or f))
        if f is not None:
            res.violation("parse_aborted_process", {"generator": "replay", "family": "?"}, str(f), w)
        elif r[0]["r"] == "panic":
            res.violation("parse_panicked", {"generator": "replay", "family": "?", "location": (r[0].get("loc") or "").split(": ")[0].replace("/repo/", "")}, str(r[0]), w)
    run.parallel(one, [{"name": "replay"}], nproc=1)
