"""C03 - reads see every applied write exactly once at every stage of its flush.

Stepped mode: the background flush is parked at each named step of its pipeline (pause hook), reads are issued
from the client while it is parked, again with further rotations queued behind it, and again after release.
Crossing mode: a read is parked at a read-path point (after its plan / passive snapshot was taken), the flush is
then allowed to run to completion, and the read is resumed.
Stress mode: several real TCP connections write and read concurrently with seeded delays at the hook points."""
import json
import random
import time

from . import gen
from .hist import Lifetimes, must_ok
from .node import Inconclusive, NodeDied

RULE = ("stepped: configuration x flush step point P (fl.*, fr.*, zw.*, idx.*, wc.*) : park the auto-flush at P, read (QUERY, QUERY COUNT, "
        "REPLAY per context) while parked, with 2-4 further rotations queued, and after release; crossing: read parked at rd.* x flush "
        "parked at F or not started, flush completes, read resumes; stress: 4-6 TCP clients with delays at hook points; oracle: every k "
        "acknowledged before the read's call exactly once, nothing unissued, COUNT = number of distinct events of the selection; "
        "distinct_nontrivial counts distinct (mode, flush point, read point, read kind, visibility state) observations")

FLUSH_POINTS = ["fl.dequeued", "fl.registered", "fr.dir_created", "zw.meta", "zw.columns", "zw.filters", "zw.index", "zw.catalog",
                "fr.type_written", "fr.before_index", "idx.tmp_written", "idx.renamed", "fr.index_added", "fl.flushed", "fl.marked_written",
                "fl.verified", "fl.published", "fl.passive_cleared", "wc.before_delete", "wc.deleted", "fl.wal_cleaned", "fl.task_done",
                "fl.completed"]
READ_POINTS = ["rd.plan_built", "rd.passive_snapshot", "rd.memtable_flow_start", "rd.segment_flow_start"]


def vis_state(st):
    """Coarse visibility state of shard 0.. from @state: where can a rotated event be found?"""
    out = []
    for sh in st:
        live = len(sh["live"]); infl = len(sh["inflight"]); pas = len([p for p in sh["passive"] if p != 0])
        idx = len(sh["index"]) if isinstance(sh["index"], list) else 0
        out.append(f"live{min(live, 2)}/inflight{min(infl, 2)}/passive{min(pas, 2)}/indexed{min(idx, 2)}")
    return "|".join(out)


def inflight_unindexed(st):
    """True if some in-flight segment is not yet named by segments.idx (its directory is absent or still being written)."""
    for sh in st:
        idx = {"%05d" % e["id"] for e in sh["index"]} if isinstance(sh["index"], list) else set()
        if any(seg not in idx for seg in sh["inflight"]):
            return True
    return False


def do_reads(node, acked, ctxs, res, sig, witness, when, issued=None):
    """acked: dict k->ctx of events acknowledged (and barrier-ed) before these reads."""
    st = node.meta("state")
    vs = vis_state(st)
    # flushing: some rotated memtable has not finished its flush (in-flight marker or non-empty passive buffer) when the reads are issued
    sig = dict(sig, inflight_unindexed=inflight_unindexed(st),
               flushing=any(sh["inflight"] or any(p for p in sh["passive"]) for sh in st))
    res.add_set("visibility_states", vs)
    want = sorted(acked)
    issued = issued if issued is not None else set(acked)
    reads = [("query", "QUERY ev RETURN [k]"), ("count", "QUERY ev COUNT")] + [("replay", f"REPLAY ev FOR {c}") for c in ctxs]
    for kind, q in reads:
        rep = node.cmd(q)
        res.evaluations += 1
        res.nontrivial((sig.get("mode"), sig.get("point"), sig.get("read_point"), kind, when, vs))
        s = dict(sig, read=kind, when=when)
        w = dict(witness, query=q, when=when, state=st)
        if rep.kind == "panic":
            res.violation("read_panicked", s, rep.message, w)
            continue
        if kind == "count":
            cnt = rep.rows[0][0] if rep.rows and rep.rows[0] else None
            if cnt != len(want):
                res.violation("count_wrong", dict(s, direction="high" if (cnt or 0) > len(want) else "low"),
                              f"{when} [{vs}]: COUNT={cnt} but {len(want)} events are applied", w)
            continue
        if rep.rows is None:
            if want and (kind == "query" or any(acked[k] == q.split()[-1] for k in want)):
                res.violation("read_failed", s, f"{when}: {q}: {rep!r}", w)
            continue
        ks = [r.get("k") for r in rep.dicts()]
        exp = want if kind == "query" else sorted(k for k in want if acked[k] == q.split()[-1])
        missing = sorted(set(exp) - set(ks))
        dup = sorted({k for k in ks if ks.count(k) > 1})
        foreign = sorted(set(ks) - set(issued))
        if missing:
            res.violation("applied_event_not_visible", s, f"{when} [{vs}]: {q}: missing k={missing[:10]} (got {len(ks)} rows)", w)
        if dup:
            res.violation("event_visible_twice", s, f"{when} [{vs}]: {q}: k={dup[:10]} returned more than once", w)
        if foreign:
            res.violation("unissued_row", s, f"{when}: {q}: k={foreign[:10]}", w)


def store_n(node, k0, n, ctxs, rng, acked):
    for i in range(n):
        k = k0 + i
        c = rng.choice(ctxs)
        must_ok(node.cmd(gen.store_cmd("ev", c, {"k": k, "v": f"v{k}"})), "store")
        acked[k] = c
    node.meta("barrier")
    return k0 + n


def stepped_task(task, wdir, res):
    rng = random.Random(task["seed"])
    cfg = dict(task["cfg"])
    # the passive-buffer set tracks max_inflight_passives rotated memtables before it starts pruning: queue more rotations than that
    mip = rng.choice([1, 2, 3, 8])
    cfg["max_inflight_passives"] = mip
    cap = cfg["fill_factor"] * cfg["event_per_zone"]
    P = task["point"]
    ctxs = ["c0", "c1", "c2"]
    lt = Lifetimes(wdir, **cfg)
    node = lt.start()
    res.count("tasks")
    witness = {"mode": "stepped", "seed": task["seed"], "config": cfg, "point": P}
    # with several shards only the first flush worker to reach P is parked; the others keep flushing while the reads run
    sig = {"mode": "stepped", "point": P, "group": P.split(".")[0], "other_shards_flushing": cfg["shard_count"] > 1}
    try:
        must_ok(node.cmd('DEFINE ev FIELDS { k: "int", v: "string" }'), "define")
        acked = {}
        # a previous, completed flush so that WAL cleanup has something to delete and the index already exists
        k = store_n(node, 1, cap, ctxs, rng, acked)
        node.syncflush()
        node.meta(f"arm {P} 1 pause")
        k = store_n(node, k, cap, ctxs, rng, acked)      # rotation -> flush worker runs into P
        parked = node.meta(f"waitparkedat {P} 4000")
        if not parked.get("ok"):
            res.count("point_not_reached")
            node.meta("release"); node.meta("disarm")
            return
        res.add_set("points_parked", P)
        do_reads(node, acked, ctxs, res, sig, witness, "parked")
        # partly filled active memtable + further rotations queued behind the parked flush
        k = store_n(node, k, max(1, cap - 1), ctxs, rng, acked)
        do_reads(node, acked, ctxs, res, sig, witness, "parked_plus_active")
        nrot = rng.randint(2, 3) if rng.random() < 0.5 else mip + rng.randint(1, 2)
        k = store_n(node, k, cap * nrot + 1, ctxs, rng, acked)
        res.add_set("queued_rotations_vs_tracked", f"{'above' if nrot + 1 > mip else 'within'}:{mip}")
        do_reads(node, acked, ctxs, res, sig, witness, "parked_with_queued_rotations")
        node.meta(f"disarmpoint {P}")
        node.meta(f"release {P}")
        node.syncflush()
        do_reads(node, acked, ctxs, res, sig, witness, "released")
        res.sample({"mode": "stepped", "point": P, "config": cfg, "events": len(acked)})
    finally:
        lt.stop()


def crossing_task(task, wdir, res):
    rng = random.Random(task["seed"])
    cfg = dict(task["cfg"])
    cap = cfg["fill_factor"] * cfg["event_per_zone"]
    F, R = task["flush_point"], task["read_point"]
    ctxs = ["c0", "c1", "c2"]
    lt = Lifetimes(wdir, **cfg)
    node = lt.start()
    res.count("tasks")
    witness = {"mode": "crossing", "seed": task["seed"], "config": cfg, "flush_point": F, "read_point": R}
    sig = {"mode": "crossing", "point": F or "none", "read_point": R}
    try:
        must_ok(node.cmd('DEFINE ev FIELDS { k: "int", v: "string" }'), "define")
        acked = {}
        k = store_n(node, 1, cap, ctxs, rng, acked)
        node.syncflush()
        if F:
            node.meta(f"arm {F} 1 pause")
            k = store_n(node, k, cap, ctxs, rng, acked)
            if not node.meta(f"waitparkedat {F} 4000").get("ok"):
                res.count("point_not_reached")
                node.meta("release"); node.meta("disarm")
                return
        else:
            k = store_n(node, k, max(1, cap - 1), ctxs, rng, acked)
        before_call = dict(acked)
        node.meta(f"arm {R} 1 pause")
        reads = [("query", "QUERY ev RETURN [k]"), ("count", "QUERY ev COUNT"), ("replay", f"REPLAY ev FOR {ctxs[0]}")]
        kind, q = reads[task["read_kind"] % len(reads)]
        node.bg(1, q)
        if not node.meta(f"waitparkedat {R} 4000").get("ok"):
            res.count("read_point_not_reached")
            node.meta("release"); node.meta("disarm")
            rep = node.wait(1)
            return
        st_at_park = node.meta("state")
        # let the flush finish completely while the read is parked
        if F:
            node.meta(f"disarmpoint {F}")
            node.meta(f"release {F}")
        else:
            k = store_n(node, k, 1, ctxs, rng, acked)     # completes the memtable -> rotation + flush
        # wait until no flush is in flight (cannot use the shard mailbox: the parked read may hold it)
        for _ in range(400):
            st = node.meta("state")
            if all(not sh["inflight"] and not any(p for p in sh["passive"]) for sh in st):
                break
            time.sleep(0.01)
        st_before_resume = node.meta("state")
        node.meta(f"disarmpoint {R}")
        node.meta(f"release {R}")
        rep = node.wait(1)
        res.evaluations += 1
        vs = vis_state(st_at_park) + "->" + vis_state(st_before_resume)
        res.add_set("visibility_states", vs)
        res.nontrivial(("crossing", F or "none", R, kind, vs))
        s = dict(sig, read=kind, inflight_unindexed=inflight_unindexed(st_at_park), flushing=True)   # a flush always runs while the read is parked
        w = dict(witness, query=q, state_at_park=st_at_park, state_before_resume=st_before_resume)
        want = sorted(before_call)
        if kind == "count":
            cnt = rep.rows[0][0] if rep.rows and rep.rows[0] else None
            if not isinstance(cnt, int) or cnt < len(want) or cnt > len(acked):
                res.violation("count_wrong", dict(s, direction="low" if isinstance(cnt, int) and cnt < len(want) else "high"),
                              f"[{vs}] COUNT={cnt}, acked before the call: {len(want)}, issued before the return: {len(acked)}", w)
        else:
            if rep.rows is None:
                res.violation("read_failed", s, f"{q}: {rep!r}", w)
            else:
                ks = [r.get("k") for r in rep.dicts()]
                exp = want if kind == "query" else [x for x in want if before_call[x] == ctxs[0]]
                missing = sorted(set(exp) - set(ks))
                dup = sorted({x for x in ks if ks.count(x) > 1})
                foreign = sorted(set(ks) - set(acked))
                if missing:
                    res.violation("applied_event_not_visible", s, f"[{vs}] {q}: missing k={missing[:10]} (got {sorted(ks)[:20]})", w)
                if dup:
                    res.violation("event_visible_twice", s, f"[{vs}] {q}: k={dup[:10]} twice", w)
                if foreign:
                    res.violation("unissued_row", s, f"{q}: k={foreign[:10]}", w)
        node.syncflush()
        do_reads(node, acked, ctxs, res, dict(sig, mode="crossing_after"), witness, "after_crossing")
        res.sample({"mode": "crossing", "flush_point": F, "read_point": R, "read": q, "config": cfg})
    finally:
        lt.stop()


def configs(quick):
    base = [dict(shard_count=1, event_per_zone=2, fill_factor=1, segments_per_merge=2),
            dict(shard_count=2, event_per_zone=1, fill_factor=3, segments_per_merge=2),
            dict(shard_count=1, event_per_zone=3, fill_factor=2, segments_per_merge=3)]
    if quick:
        return base
    extra = [dict(shard_count=s, event_per_zone=z, fill_factor=f, segments_per_merge=2)
             for s in (1, 2, 3) for z in (1, 2, 4) for f in (1, 2)]
    return base + extra


def run(run):
    quick = run.tier == "quick"
    cfgs = configs(quick)
    tasks = []
    for ci, cfg in enumerate(cfgs):
        for P in FLUSH_POINTS:
            tasks.append({"name": f"s-{ci}-{P}", "seed": run.rng("s", ci, P).getrandbits(40), "cfg": cfg, "point": P})
    run.parallel(stepped_task, tasks)
    ctasks = []
    fsel = [None, "fl.dequeued", "fr.dir_created", "zw.columns", "fr.before_index", "fl.flushed", "fl.verified", "fl.published", "fl.passive_cleared", "fl.task_done"]
    for ci, cfg in enumerate(cfgs if not quick else cfgs[:2]):
        for F in fsel:
            for R in READ_POINTS:
                for rk in range(3):
                    ctasks.append({"name": f"x-{ci}-{F}-{R}-{rk}", "seed": run.rng("x", ci, F, R, rk).getrandbits(40), "cfg": cfg,
                                   "flush_point": F, "read_point": R, "read_kind": rk})
    run.parallel(crossing_task, ctasks)
    from . import c03_stress
    c03_stress.run_stress(run, 12 if quick else 120)
    run.min_distinct = 60
    need = {"live0", "passive1", "indexed1"}
    run.assumptions = ["applied = acknowledged and followed by a shard-mailbox barrier before the read is issued",
                       "auto-flush path only: a manual FLUSH blocks the shard mailbox, so no read can interleave with it",
                       "pause = the hook blocks the thread that reached the point; ins.* points run on the shard task and are not pausable"]


def replay(run, path):
    with open(path) as f:
        w = json.load(f)["witness"]
    if w["mode"] == "stepped":
        run.parallel(stepped_task, [{"name": "replay", "seed": w["seed"], "cfg": w["config"], "point": w["point"]}], nproc=1)
    elif w["mode"] == "crossing":
        for rk in range(3):
            run.parallel(crossing_task, [{"name": "replay", "seed": w["seed"], "cfg": w["config"], "flush_point": w["flush_point"],
                                          "read_point": w["read_point"], "read_kind": rk}], nproc=1)
    else:
        from . import c03_stress
        c03_stress.replay(run, w)
