#![feature(portable_simd)]
//! vnode: one process = one lifetime of the database. Line protocol on stdin/stdout.
//! A request line is either a SnelDB command (parsed by the repo's parser, dispatched by the
//! repo's dispatcher into a Vec<u8>) or a meta request starting with '@'.
//! Reply framing: "#<kind> <len>\n" + <len> bytes + "\n"; kind in ok|perr|panic|meta|err.

use serde_json::{Value, json};
use std::io::{BufRead, Write};
use std::time::Duration;
use verif_harness::engine::{Node, Outcome};
use verif_harness::hooks::{self, Action, Clock};

fn reply(kind: &str, bytes: &[u8]) {
    let stdout = std::io::stdout();
    let mut o = stdout.lock();
    let _ = write!(o, "#{} {}\n", kind, bytes.len());
    let _ = o.write_all(bytes);
    let _ = o.write_all(b"\n");
    let _ = o.flush();
}

fn meta_reply(v: Value) {
    reply("meta", v.to_string().as_bytes());
}

fn main() {
    // diagnostics only: VNODE_LOG=<env-filter> sends the repo's tracing output to stderr
    if let Ok(f) = std::env::var("VNODE_LOG") {
        let _ = tracing_subscriber::fmt()
            .with_env_filter(tracing_subscriber::EnvFilter::new(f))
            .with_writer(std::io::stderr)
            .try_init();
    }
    // Record panics (any thread) with location on stderr for attribution.
    std::panic::set_hook(Box::new(|info| {
        let loc = info
            .location()
            .map(|l| format!("{}:{}", l.file(), l.line()))
            .unwrap_or_default();
        let th = std::thread::current();
        eprintln!(
            "VERIF-PANIC thread={} at={} msg={}",
            th.name().unwrap_or("?"),
            loc,
            info
        );
    }));
    let workers: usize = std::env::var("VNODE_WORKERS")
        .ok()
        .and_then(|s| s.parse().ok())
        .unwrap_or(8);
    let rt = tokio::runtime::Builder::new_multi_thread()
        .worker_threads(workers)
        .enable_all()
        .build()
        .expect("runtime");
    let mut node = rt.block_on(Node::start());
    let bg: std::sync::Arc<std::sync::Mutex<std::collections::HashMap<String, (String, Vec<u8>)>>> =
        std::sync::Arc::new(std::sync::Mutex::new(std::collections::HashMap::new()));
    reply("meta", b"{\"ready\":true}");

    let stdin = std::io::stdin();
    let mut line = String::new();
    loop {
        line.clear();
        let n = stdin.lock().read_line(&mut line).unwrap_or(0);
        if n == 0 {
            // orchestrator went away: die without flushing (treated as a kill)
            unsafe { libc::_exit(3) }
        }
        let l = line.trim_end_matches(['\n', '\r']);
        if let Some(meta) = l.strip_prefix('@') {
            let parts: Vec<&str> = meta.split_whitespace().collect();
            let cmd = parts.first().copied().unwrap_or("");
            match cmd {
                "ping" => meta_reply(json!({"pong": true})),
                "sync" => {
                    let r = rt.block_on(node.sync(Duration::from_secs(20)));
                    meta_reply(json!({"ok": r.is_ok(), "err": r.err()}));
                }
                "barrier" => {
                    let r = rt.block_on(node.mailbox_barrier());
                    meta_reply(json!({"ok": r.is_ok(), "err": r.err()}));
                }
                "syncflush" => {
                    let r = rt.block_on(async {
                        node.sync(Duration::from_secs(20)).await?;
                        node.sync_flush().await
                    });
                    meta_reply(json!({"ok": r.is_ok(), "err": r.err()}));
                }
                "compact" => {
                    let s: usize = parts.get(1).and_then(|x| x.parse().ok()).unwrap_or(0);
                    let v = rt.block_on(node.compact(s));
                    meta_reply(v);
                }
                "compactbg" => {
                    // run a deterministic compaction round in the background (so that it can be parked / overlapped)
                    let sid: usize = parts.get(1).and_then(|x| x.parse().ok()).unwrap_or(0);
                    let n2 = node.clone_for_bg();
                    let slot = std::sync::Arc::clone(&bg);
                    rt.spawn(async move {
                        let v = n2.compact(sid).await;
                        slot.lock().unwrap().insert(format!("compact-{sid}"), ("meta".to_string(), v.to_string().into_bytes()));
                    });
                    meta_reply(json!({"ok": true}));
                }
                "arm" => {
                    // @arm <point> <nth> <action> [arg=<n>]
                    let point = parts.get(1).copied().unwrap_or("");
                    let nth: u64 = parts.get(2).and_then(|x| x.parse().ok()).unwrap_or(1);
                    let act = parts.get(3).copied().unwrap_or("crash");
                    let action = if act == "crash" {
                        Action::Crash
                    } else if act == "pause" {
                        Action::Pause
                    } else if let Some(ms) = act.strip_prefix("delay:") {
                        Action::DelayMs(ms.parse().unwrap_or(1))
                    } else {
                        Action::Crash
                    };
                    let arg = parts
                        .get(4)
                        .and_then(|x| x.strip_prefix("arg="))
                        .and_then(|x| x.parse().ok());
                    hooks::arm(point, nth, arg, action);
                    meta_reply(json!({"ok": true}));
                }
                "disarm" => {
                    hooks::disarm_all();
                    meta_reply(json!({"ok": true}));
                }
                "release" => {
                    match parts.get(1).copied() {
                        Some(name) => hooks::release_point(name),
                        None => hooks::release(),
                    }
                    meta_reply(json!({"ok": true}));
                }
                "disarmpoint" => {
                    hooks::disarm_point(parts.get(1).copied().unwrap_or(""));
                    meta_reply(json!({"ok": true}));
                }
                "waitparkedat" => {
                    let name = parts.get(1).copied().unwrap_or("");
                    let ms: u64 = parts.get(2).and_then(|x| x.parse().ok()).unwrap_or(5000);
                    let ok = hooks::wait_parked_at(name, Duration::from_millis(ms));
                    meta_reply(json!({"ok": ok, "parked": hooks::parked_now()}));
                }
                "parked" => meta_reply(json!({"parked": hooks::parked_now()})),
                "dropcache" => {
                    // diagnostic: invalidate one global cache for a segment label: @dropcache <which> <label>
                    use snel_db::engine::core::read::cache::*;
                    let which = parts.get(1).copied().unwrap_or("all");
                    let label = parts.get(2).copied().unwrap_or("00000");
                    if which == "handle" || which == "all" { GlobalColumnHandleCache::instance().invalidate_segment(label); }
                    if which == "surf" || which == "all" { GlobalZoneSurfCache::instance().invalidate_segment(label); }
                    if which == "zoneindex" || which == "all" { GlobalZoneIndexCache::instance().invalidate_segment(label); }
                    if which == "catalog" || which == "all" { GlobalIndexCatalogCache::instance().invalidate_segment(label); }
                    if which == "block" || which == "all" { GlobalColumnBlockCache::instance().invalidate_segment(label); }
                    if which == "enum" || which == "all" { global_enum_cache::GlobalEnumCache::instance().invalidate_segment(label); }
                    if which == "xor" || which == "all" { global_zone_xor_filter_cache::GlobalZoneXorFilterCache::instance().invalidate_segment(label); }
                    meta_reply(json!({"ok": true}));
                }
                "bg" => {
                    // @bg <id> <command...> : run a command in the background; fetch the reply with @wait <id>
                    let id = parts.get(1).copied().unwrap_or("0").to_string();
                    let cmdline = meta
                        .splitn(3, char::is_whitespace)
                        .nth(2)
                        .unwrap_or("")
                        .to_string();
                    let node_ctx = node.clone_for_bg();
                    let slot = std::sync::Arc::clone(&bg);
                    rt.spawn(async move {
                        let out = node_ctx.exec(&cmdline).await;
                        let (kind, bytes) = match out {
                            Outcome::Ok(b) => ("ok", b),
                            Outcome::ParseErr(s) => ("perr", s.into_bytes()),
                            Outcome::Panic(s) => ("panic", s.into_bytes()),
                        };
                        slot.lock().unwrap().insert(id, (kind.to_string(), bytes));
                    });
                    meta_reply(json!({"ok": true}));
                }
                "wait" => {
                    let id = parts.get(1).copied().unwrap_or("0").to_string();
                    let ms: u64 = parts.get(2).and_then(|x| x.parse().ok()).unwrap_or(10000);
                    let deadline = std::time::Instant::now() + Duration::from_millis(ms);
                    let mut got = None;
                    while std::time::Instant::now() < deadline {
                        if let Some(v) = bg.lock().unwrap().remove(&id) {
                            got = Some(v);
                            break;
                        }
                        std::thread::sleep(Duration::from_millis(2));
                    }
                    match got {
                        Some((kind, bytes)) => reply(&kind, &bytes),
                        None => reply("err", b"bg command not finished"),
                    }
                }
                "waitparked" => {
                    let ms: u64 = parts.get(1).and_then(|x| x.parse().ok()).unwrap_or(5000);
                    let p = hooks::wait_parked(Duration::from_millis(ms));
                    meta_reply(json!({"parked": p}));
                }
                "waitunparked" => {
                    let ms: u64 = parts.get(1).and_then(|x| x.parse().ok()).unwrap_or(5000);
                    let ok = hooks::wait_unparked(Duration::from_millis(ms));
                    meta_reply(json!({"ok": ok}));
                }
                "state" => {
                    let v = rt.block_on(node.state());
                    meta_reply(v);
                }
                "fs" => {
                    let hash = parts.get(1).copied() == Some("hash");
                    meta_reply(node.fs(hash));
                }
                "clock" => {
                    let now: u64 = parts.get(2).and_then(|x| x.parse().ok()).unwrap_or(0);
                    let step: u64 = parts.get(3).and_then(|x| x.parse().ok()).unwrap_or(1);
                    match parts.get(1).copied() {
                        Some("auto") => {
                            hooks::set_clock(Clock::Auto { now, step });
                            meta_reply(json!({"ok": true}));
                        }
                        Some("every") => {
                            // @clock every <ms> <reads per millisecond>; ms 0 = continue from the current scripted value
                            let base = if now == 0 { hooks::peek_clock().unwrap_or(0) } else { now };
                            hooks::set_clock(Clock::Every { now: base, every: step.max(1), reads: 0 });
                            meta_reply(json!({"ok": true, "now": base}));
                        }
                        Some("peek") => meta_reply(json!({"ok": true, "now": hooks::peek_clock()})),
                        Some("mono") => {
                            // never backwards: max(requested, current scripted value)
                            let v = hooks::set_clock_monotone(now, step);
                            meta_reply(json!({"ok": true, "now": v}));
                        }
                        _ => {
                            hooks::set_clock(Clock::Real);
                            meta_reply(json!({"ok": true}));
                        }
                    }
                }
                "trace" => match parts.get(1).copied() {
                    Some("on") => {
                        hooks::set_trace(true);
                        meta_reply(json!({"ok": true}));
                    }
                    Some("take") => {
                        let t = hooks::take_trace();
                        meta_reply(json!({"trace": t}));
                    }
                    _ => {
                        hooks::set_trace(false);
                        meta_reply(json!({"ok": true}));
                    }
                },
                "counts" => meta_reply(json!({"counts": hooks::counts(), "wal": hooks::wal_counters()})),
                "arms" => meta_reply(hooks::arms_json()),
                "snap" => match parts.get(1).copied() {
                    Some("on") => {
                        let prefixes: Vec<String> = parts
                            .get(2)
                            .map(|s| s.split(',').map(|x| x.to_string()).collect())
                            .unwrap_or_default();
                        hooks::set_snap(Some(Node::data_dir()), prefixes);
                        meta_reply(json!({"ok": true}));
                    }
                    Some("take") => meta_reply(json!({"snaps": hooks::take_snaps()})),
                    _ => {
                        hooks::set_snap(None, vec![]);
                        meta_reply(json!({"ok": true}));
                    }
                },
                "fault" => match parts.get(1).copied() {
                    Some("clear") => {
                        hooks::clear_faults();
                        meta_reply(json!({"ok": true}));
                    }
                    Some("hits") => meta_reply(json!({"hits": hooks::fault_hits()})),
                    Some(name) => {
                        let args: Vec<u64> = parts
                            .get(2)
                            .map(|s| {
                                s.split(',')
                                    .map(|x| if x == "all" { u64::MAX } else { x.parse().unwrap_or(u64::MAX) })
                                    .collect()
                            })
                            .unwrap_or_else(|| vec![u64::MAX]);
                        hooks::set_fault(name, args);
                        meta_reply(json!({"ok": true}));
                    }
                    None => meta_reply(json!({"ok": false})),
                },
                "failwrite" => {
                    // @failwrite <n>: the next command's response writer breaks after n bytes (client disconnect)
                    let n: usize = parts.get(1).and_then(|x| x.parse().ok()).unwrap_or(0);
                    *node.fail_write_after.lock().unwrap_or_else(|e| e.into_inner()) = Some(n);
                    meta_reply(json!({"ok": true}));
                }
                "render" => {
                    node.renderer = parts.get(1).copied().unwrap_or("json").to_string();
                    meta_reply(json!({"ok": true}));
                }
                "user" => {
                    node.user = match parts.get(1).copied() {
                        None | Some("none") => None,
                        Some(u) => Some(u.to_string()),
                    };
                    meta_reply(json!({"ok": true}));
                }
                "serve" => {
                    let ctx = std::sync::Arc::clone(&node.ctx);
                    rt.spawn(async move {
                        if let Err(e) = snel_db::frontend::tcp::listener::run_tcp_server(ctx).await {
                            eprintln!("VERIF-SERVE-ERROR {e}");
                        }
                    });
                    std::thread::sleep(Duration::from_millis(150));
                    meta_reply(json!({"ok": true}));
                }
                "shutdown" => {
                    let v = rt.block_on(node.shutdown());
                    meta_reply(v);
                    // like main(): the runtime is dropped, then the process exits
                    drop(node);
                    rt.shutdown_timeout(Duration::from_millis(200));
                    std::process::exit(0);
                }
                "exit" => {
                    reply("meta", b"{\"ok\":true}");
                    unsafe { libc::_exit(0) }
                }
                _ => reply("err", format!("unknown meta {cmd}").as_bytes()),
            }
            continue;
        }
        match rt.block_on(node.exec(l)) {
            Outcome::Ok(bytes) => reply("ok", &bytes),
            Outcome::ParseErr(s) => reply("perr", s.as_bytes()),
            Outcome::Panic(s) => reply("panic", s.as_bytes()),
        }
    }
}
