"""C06 - STORE accepts exactly the schema-conforming payloads; rejected STOREs leave no trace;
a failed DEFINE leaves the previous schema in force."""
import json

from . import gen
from .gen import Field, Schema
from .hist import Lifetimes, must_ok

RULE = ("history = generated schema (every primitive alias, nullable unions, enums, date/datetime) x ~70 payloads produced by "
        "named mutators from a conforming payload; each STORE's status is compared with a validator written from "
        "store.md/define.md (classes accept / reject / unspecified) and its visibility is re-checked after the STORE, after FLUSH "
        "and after restart; distinct_nontrivial counts distinct (mutator, field kind, expected class) combinations exercised")


def conforming_value(rng, f):
    k = f.kind
    if k == "int":
        return rng.choice([0, 1, -5, 123456, gen.I64_MAX, gen.I64_MIN])
    if k == "u64":
        return rng.choice([0, 7, 2 ** 40, gen.I64_MAX])
    if k == "float":
        return rng.choice([0.5, -2.25, 1e10, 3.0000001])
    if k == "string":
        return rng.choice(["x", "", "héllo", "two words", "123"])
    if k == "bool":
        return rng.random() < 0.5
    if k == "enum":
        return rng.choice(f.variants)
    if k == "datetime":
        return rng.choice(["2024-05-01T10:00:00Z", 1714557600, 1714557600000, "2024-05-01T12:00:00+02:00"])
    if k == "date":
        return rng.choice(["2024-05-01", 1714521600])
    raise ValueError(k)


def mutations(rng, schema, base):
    """Yield (name, field_kind, payload_text_or_dict, expected) with expected in accept/reject/unspecified."""
    out = []
    fields = [f for f in schema.fields if f.name != "k"]
    out.append(("conforming", "-", dict(base), "accept"))
    for f in fields:
        k = f.kind
        nm = f.name

        def with_(v):
            p = dict(base); p[nm] = v; return p
        # drop key
        p = dict(base); p.pop(nm, None)
        out.append(("drop_key", k + ("?" if f.optional else ""), p, "accept" if f.optional else "reject"))
        out.append(("null_value", k + ("?" if f.optional else ""), with_(None), "accept" if f.optional else "reject"))
        # wrong JSON types
        wrong = {"string": [5, 1.5, True, ["a"], {"a": 1}],
                 "int": ["5", True, 1.5, [1], {"a": 1}, "abc"],
                 "u64": ["5", True, 1.5, -1, [1], {"a": 1}],
                 "float": ["1.5", True, [1.0], {"a": 1.0}],
                 "bool": ["true", 1, 0, "yes", [True]],
                 "enum": [1, True, "NOPE", None if False else ["red"]],
                 "datetime": [True, ["2024-01-01"], {"t": 1}, "not a time", "2024-13-45T99:00:00Z", ""],
                 "date": [True, ["2024-01-01"], "not a date", "2024-02-31"]}[k]
        for w in wrong:
            out.append(("wrong_type_" + type(w).__name__, k, with_(w), "reject"))
        if k == "int":
            out.append(("int_as_integral_float", k, with_(1.0), "unspecified"))
            out.append(("int_above_i64", k, with_(gen.I64_MAX + 1), "reject"))
            out.append(("int_below_i64", k, with_(gen.I64_MIN - 1), "reject"))
            out.append(("int_i64_max", k, with_(gen.I64_MAX), "accept"))
            out.append(("int_i64_min", k, with_(gen.I64_MIN), "accept"))
        if k == "u64":
            out.append(("u64_above_i64", k, with_(gen.I64_MAX + 1), "unspecified"))
            out.append(("u64_max", k, with_(gen.U64_MAX), "unspecified"))
            out.append(("u64_above_u64", k, with_(gen.U64_MAX + 1), "reject"))
        if k == "float":
            out.append(("float_as_int", k, with_(3), "unspecified"))
        if k == "enum":
            v = f.variants[0]
            alt = v.upper() if v.upper() != v else v.lower()
            if alt not in f.variants:
                out.append(("enum_wrong_case", k, with_(alt), "reject"))
            out.append(("enum_padded", k, with_(" " + v), "reject"))
        if k == "string":
            out.append(("string_nonascii", k, with_("日本語 ✓"), "accept"))
            out.append(("string_empty", k, with_(""), "accept"))
        if k in ("datetime", "date"):
            out.append(("time_numeric_string", k, with_("1714557600"), "unspecified"))
            out.append(("time_negative_epoch", k, with_(-86400), "unspecified"))
            out.append(("time_float_epoch", k, with_(1714557600.5), "unspecified"))
            # an epoch is seconds .. nanoseconds (at most 19 digits): 20-digit integers are no time at all
            out.append(("time_integer_20_digits", k, with_(rng.choice([10 ** 19, gen.U64_MAX, 12345678901234567890])), "reject"))
            out.append(("time_epoch_ms", k, with_(1714557600123), "accept"))
            out.append(("time_epoch_ns", k, with_(1714557600123456789), "accept"))
            out.append(("time_iso_offset", k, with_("2024-05-01T12:00:00+05:30") if k == "datetime" else with_("2024-05-01"), "accept"))
            out.append(("time_garbage_string", k, with_("yesterday"), "reject"))
    # extra / misspelled keys
    p = dict(base); p["extra_key"] = 1
    out.append(("extra_key", "-", p, "reject"))
    if fields:
        f = rng.choice(fields)
        p = dict(base); v = p.pop(f.name, None); p[f.name + "x"] = v
        out.append(("misspelled_key", f.kind, p, "reject"))
        p = dict(base); v = p.pop(f.name, None); p[f.name.upper()] = v
        if f.name.upper() != f.name:
            out.append(("wrong_case_key", f.kind, p, "reject"))
    if all(f.optional for f in fields):
        out.append(("only_required_key", "-", {"k": base["k"]}, "accept"))       # every other field is optional: this payload conforms
    else:
        out.append(("empty_object", "-", {}, "reject"))
    rng.shuffle(out)
    return out


def history_task(task, wdir, res):
    import random
    rng = random.Random(task["seed"])
    schema = gen.gen_schema(rng, "ev", nfields=rng.randint(2, 5), spellings=True)
    cfg = gen.gen_config(rng, zone=(1, 2, 4), fill=(1, 2, 50))
    res.count("tasks"); res.count("histories")
    lt = Lifetimes(wdir, **cfg)
    node = lt.start()
    witness = {"seed": task["seed"], "config": cfg, "define": schema.define_cmd()}
    try:
        must_ok(node.cmd(schema.define_cmd()), "define")
        accepted, rejected, unspecified_acc = set(), set(), set()
        k = 0
        log = []

        def visible():
            rep = node.cmd("QUERY ev RETURN [k]")
            if not rep.ok or rep.rows is None:
                return None
            return [r.get("k") for r in rep.dicts()]

        base_cases = []
        for round_ in range(task["rounds"]):
            base = {"k": 0}
            for f in schema.fields:
                if f.name != "k":
                    base[f.name] = conforming_value(rng, f)
            base_cases.append(base)
            for name, kind, payload, expected in mutations(rng, schema, base):
                k += 1
                if "k" in payload or name != "empty_object":
                    payload = dict(payload); payload["k"] = k
                ctx = rng.choice(["c1", "c2", "user-7"])
                cmd = gen.store_cmd("ev", ctx, payload)
                rep = node.cmd(cmd)
                res.evaluations += 1
                res.nontrivial((name, kind, expected))
                got = "accept" if rep.ok else ("panic" if rep.kind == "panic" else "reject")
                log.append((k, name, expected, got))
                w = dict(witness, store=cmd, reply=str(rep.raw[:200]))
                sig = {"mutation": name, "kind": kind, "expected": expected, "got": got}
                if got == "panic":
                    res.violation("store_panicked", sig, f"{cmd[:200]} -> {rep.message}", w)
                    continue
                if expected == "accept" and got != "accept":
                    res.violation("conforming_rejected", sig, f"{cmd[:300]} -> {rep.status} {rep.message}", w)
                if expected == "reject" and got == "accept":
                    res.violation("nonconforming_accepted", sig, f"{cmd[:300]} -> accepted", w)
                (accepted if got == "accept" else rejected).add(k)
        # undefined type, empty contexts
        for cmd, nm in [(gen.store_cmd("nosuchtype", "c1", {"k": 1}), "undefined_type"),
                        ('STORE ev FOR "" PAYLOAD ' + gen.payload_text(dict(base_cases[0], k=900001)), "empty_context"),
                        ('STORE ev FOR "   " PAYLOAD ' + gen.payload_text(dict(base_cases[0], k=900002)), "blank_context")]:
            rep = node.cmd(cmd)
            res.evaluations += 1
            res.nontrivial((nm, "-", "reject"))
            if rep.ok:
                res.violation("nonconforming_accepted", {"mutation": nm, "kind": "-", "expected": "reject", "got": "accept"}, cmd[:200], witness)
                accepted.add(900001 if nm == "empty_context" else 900002)
        # DEFINE clause: redefinition / bad definitions must fail and leave the schema in force
        bad_defs = [schema.define_cmd(), "DEFINE ev FIELDS { k: \"int\", other: \"string\" }", "DEFINE ev FIELDS { }",
                    "DEFINE ev2 FIELDS { a: \"nosuchtype\" }", "DEFINE ev3 FIELDS { }"]
        for d in bad_defs:
            rep = node.cmd(d)
            res.evaluations += 1
            res.nontrivial(("define", d.split()[1], "err" if not rep.ok else "ok"))
            if rep.kind == "panic":
                res.violation("define_panicked", {"define": d[:40]}, rep.message, dict(witness, define2=d))
            elif rep.ok and d.split()[1] == "ev":
                res.violation("redefinition_accepted", {"same": d == schema.define_cmd()}, d, dict(witness, define2=d))
        # after failed DEFINEs the old schema is in force: a conforming payload is accepted, a payload for the "new" one is not
        k += 1
        good = dict(base_cases[0], k=k)
        rep = node.cmd(gen.store_cmd("ev", "c1", good))
        res.evaluations += 1
        if not rep.ok:
            res.violation("schema_lost_after_failed_define", {"when": "same_lifetime"}, f"{rep.status} {rep.message}", witness)
        else:
            accepted.add(k)
        rep = node.cmd(gen.store_cmd("ev", "c1", {"k": 777777, "other": "x"}))
        if rep.ok and set(f.name for f in schema.fields) != {"k", "other"}:
            res.violation("failed_define_changed_schema", {"when": "same_lifetime"}, "payload of the rejected redefinition accepted", witness)
        for t in ("ev2", "ev3"):
            rep = node.cmd(gen.store_cmd(t, "c1", {"a": 1}))
            if rep.ok:
                res.violation("failed_define_registered_type", {"type": t}, "STORE to a type whose DEFINE failed was accepted", witness)

        def check_visibility(stage):
            ks = visible()
            if ks is None:
                res.violation("read_failed", {"stage": stage}, "QUERY ev RETURN [k] failed", witness)
                return
            res.evaluations += 1
            for kk in accepted:
                n = ks.count(kk)
                if n != 1:
                    nm = next((l[1] for l in log if l[0] == kk), "?")
                    res.violation("accepted_not_visible_once", {"stage": stage, "n": min(n, 2), "mutation": nm},
                                  f"k={kk} ({nm}) visible {n} times at {stage}", witness)
            for kk in ks:
                if kk in rejected:
                    nm = next((l[1] for l in log if l[0] == kk), "?")
                    res.violation("rejected_visible", {"stage": stage, "mutation": nm}, f"k={kk} ({nm}) visible at {stage}", witness)

        node.syncflush()
        check_visibility("after_store")
        must_ok(node.cmd("FLUSH", timeout=60), "FLUSH")
        node.syncflush()
        check_visibility("after_flush")
        node = lt.restart_clean()
        check_visibility("after_restart")
        # schema still in force after restart
        k += 1
        rep = node.cmd(gen.store_cmd("ev", "c1", dict(base_cases[0], k=k)))
        if not rep.ok:
            res.violation("schema_lost_after_failed_define", {"when": "after_restart"}, f"{rep.status} {rep.message}", witness)
        rep = node.cmd(gen.store_cmd("ev", "c1", {"k": 777778, "other": "x"}))
        if rep.ok and set(f.name for f in schema.fields) != {"k", "other"}:
            res.violation("failed_define_changed_schema", {"when": "after_restart"}, "payload of the rejected redefinition accepted after restart", witness)
        res.sample({"define": schema.define_cmd(), "stores": len(log), "example": log[:5]})
    finally:
        lt.stop()


def run(run):
    n = 16 if run.tier == "quick" else 300
    rounds = 1 if run.tier == "quick" else 3
    tasks = [{"name": f"h{i}", "seed": run.rng("hist", i).getrandbits(48), "rounds": rounds} for i in range(n)]
    run.min_distinct = 40
    run.assumptions = ["validator classes from docs/src/commands/store.md + define.md; 'unspecified' cases (1.0 for int, int for float, "
                       "u64 above i64::MAX, numeric strings / negative / fractional epochs for time fields) only assert ack <=> visible exactly once"]
    run.parallel(history_task, tasks)


def replay(run, path):
    with open(path) as f:
        w = json.load(f)
    run.parallel(history_task, [{"name": "replay", "seed": w["witness"]["seed"], "rounds": 1}], nproc=1)
