//! C17 monitor (parser part): parse each input with the repo's public parse_command under catch_unwind,
//! report Ok(Command as JSON) / Err(message) / Panic(location) and the time taken. The index of the input being
//! parsed is written to stderr first, so that a parent can attribute a process abort (stack overflow).
use serde_json::{Value, json};
use snel_db::command::parser::parse_command;
use std::io::Write;
use std::sync::Mutex;

static LAST_PANIC: Mutex<Option<String>> = Mutex::new(None);

pub fn run(input: &Value) -> Value {
    std::panic::set_hook(Box::new(|info| {
        let loc = info
            .location()
            .map(|l| format!("{}:{}", l.file(), l.line()))
            .unwrap_or_default();
        *LAST_PANIC.lock().unwrap_or_else(|e| e.into_inner()) = Some(format!("{loc}: {info}"));
    }));
    let empty = Vec::new();
    let inputs = input["inputs"].as_array().unwrap_or(&empty);
    let want_cmd = input["want_cmd"].as_bool().unwrap_or(true);
    let mut out = Vec::with_capacity(inputs.len());
    let stderr = std::io::stderr();
    for (i, s) in inputs.iter().enumerate() {
        let text = s.as_str().unwrap_or("").to_string();
        {
            let mut e = stderr.lock();
            let _ = writeln!(e, "I {i}");
            let _ = e.flush();
        }
        let t0 = std::time::Instant::now();
        let t2 = text.clone();
        let r = std::panic::catch_unwind(move || parse_command(&t2));
        let ms = t0.elapsed().as_secs_f64() * 1000.0;
        let v = match r {
            Ok(Ok(cmd)) => {
                if want_cmd {
                    json!({"r": "ok", "ms": ms, "cmd": serde_json::to_value(&cmd).unwrap_or(Value::Null)})
                } else {
                    json!({"r": "ok", "ms": ms})
                }
            }
            Ok(Err(e)) => json!({"r": "err", "ms": ms, "msg": e.to_string()}),
            Err(_) => {
                let loc = LAST_PANIC.lock().unwrap_or_else(|e| e.into_inner()).take();
                json!({"r": "panic", "ms": ms, "loc": loc})
            }
        };
        out.push(v);
    }
    json!({"results": out})
}
