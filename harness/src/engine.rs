//! "Engine in a process": the objects `main` builds, plus meta operations used by the monitors.

use crate::{fsmon, hooks};
use serde_json::{Value, json};
use snel_db::command::dispatcher::dispatch_command;
use snel_db::command::parser::parse_command;
use snel_db::engine::core::compaction::handover::CompactionHandover;
use snel_db::engine::core::compaction::policy::{CompactionPolicy, KWayCountPolicy};
use snel_db::engine::core::{CompactionWorker, SegmentIndex};
use snel_db::engine::schema::SchemaRegistry;
use snel_db::engine::shard::message::ShardMessage;
use snel_db::frontend::context::FrontendContext;
use snel_db::shared::config::CONFIG;
use snel_db::shared::response::render::Renderer;
use snel_db::shared::response::{ArrowRenderer, JsonRenderer, UnixRenderer};
use std::path::PathBuf;
use std::sync::Arc;
use std::time::{Duration, Instant};

pub struct Node {
    pub ctx: Arc<FrontendContext>,
    pub renderer: String,
    /// one-shot: the next command's response writer fails (BrokenPipe) once this many bytes were written - a client that went away
    pub fail_write_after: std::sync::Arc<std::sync::Mutex<Option<usize>>>,
    pub user: Option<String>,
}

pub enum Outcome {
    /// command parsed and dispatched; bytes written by the handler
    Ok(Vec<u8>),
    /// parse error text (what the TCP listener would send)
    ParseErr(String),
    /// a panic in parse or dispatch, with message
    Panic(String),
}

fn panic_msg(e: Box<dyn std::any::Any + Send>) -> String {
    if let Some(s) = e.downcast_ref::<&str>() {
        s.to_string()
    } else if let Some(s) = e.downcast_ref::<String>() {
        s.clone()
    } else {
        "non-string panic".to_string()
    }
}

impl Node {
    pub async fn start() -> Self {
        hooks::install();
        // Same cache sizing as src/main.rs
        use snel_db::engine::core::read::cache::{
            GlobalColumnBlockCache, GlobalZoneIndexCache, GlobalZoneSurfCache,
        };
        if let Some(q) = CONFIG.query.as_ref() {
            if let Some(cap) = q.zone_index_cache_max_entries {
                GlobalZoneIndexCache::instance().resize(cap);
            }
            if let Some(bytes) = q.column_block_cache_max_bytes {
                GlobalColumnBlockCache::instance().resize_bytes(bytes);
            }
            if let Some(bytes) = q.zone_surf_cache_max_bytes {
                GlobalZoneSurfCache::instance().resize_bytes(bytes);
            }
        }
        let ctx = FrontendContext::from_config().await;
        Node {
            ctx,
            renderer: "json".into(),
            user: Some("bypass".into()),
            fail_write_after: std::sync::Arc::new(std::sync::Mutex::new(None)),
        }
    }

    pub fn clone_for_bg(&self) -> Node {
        Node {
            ctx: Arc::clone(&self.ctx),
            renderer: self.renderer.clone(),
            user: self.user.clone(),
            fail_write_after: std::sync::Arc::clone(&self.fail_write_after),
        }
    }

    pub async fn exec(&self, line: &str) -> Outcome {
        let line_owned = line.to_string();
        let parsed = std::panic::catch_unwind(move || parse_command(&line_owned));
        let cmd = match parsed {
            Err(e) => return Outcome::Panic(format!("parse: {}", panic_msg(e))),
            Ok(Err(e)) => return Outcome::ParseErr(format!("ERROR: {e}\n")),
            Ok(Ok(c)) => c,
        };
        let ctx = Arc::clone(&self.ctx);
        let renderer = self.renderer.clone();
        let user = self.user.clone();
        let fail_after = self.fail_write_after.lock().unwrap_or_else(|e| e.into_inner()).take();
        let handle = tokio::spawn(async move {
            let mut out = BreakableWriter { buf: Vec::new(), limit: fail_after };
            let r: Box<dyn Renderer> = match renderer.as_str() {
                "arrow" => Box::new(ArrowRenderer),
                "unix" => Box::new(UnixRenderer),
                _ => Box::new(JsonRenderer),
            };
            let res = dispatch_command(
                &cmd,
                &mut out,
                &ctx.shard_manager,
                &ctx.registry,
                ctx.auth_manager.as_ref(),
                user.as_deref(),
                r.as_ref(),
            )
            .await;
            let mut out = out.buf;
            if let Err(e) = res {
                out.extend_from_slice(format!("\nDISPATCH-IO-ERROR: {e}\n").as_bytes());
            }
            out
        });
        match handle.await {
            Ok(out) => Outcome::Ok(out),
            Err(e) => {
                if e.is_panic() {
                    Outcome::Panic(format!("dispatch: {}", panic_msg(e.into_panic())))
                } else {
                    Outcome::Panic("dispatch: task cancelled".into())
                }
            }
        }
    }

    /// Mailbox barrier: one trivial QueryStream round trip per shard.
    pub async fn mailbox_barrier(&self) -> Result<(), String> {
        let cmd = parse_command("QUERY verif_barrier_undefined_type").map_err(|e| e.to_string())?;
        let mut rxs = Vec::new();
        for shard in self.ctx.shard_manager.all_shards() {
            let (tx, rx) = tokio::sync::oneshot::channel();
            shard
                .tx
                .send(ShardMessage::QueryStream {
                    command: cmd.clone(),
                    metadata: None,
                    response: tx,
                    registry: Arc::clone(&self.ctx.registry),
                })
                .await
                .map_err(|e| format!("send: {e}"))?;
            rxs.push(rx);
        }
        for rx in rxs {
            let _ = rx.await;
        }
        Ok(())
    }

    /// Mailbox barrier + WAL-drained barrier.
    pub async fn sync(&self, timeout: Duration) -> Result<(), String> {
        self.mailbox_barrier().await?;
        let deadline = Instant::now() + timeout;
        while !hooks::wal_drained() {
            if Instant::now() > deadline {
                return Err(format!("wal not drained: {}", hooks::wal_counters()));
            }
            tokio::time::sleep(Duration::from_millis(1)).await;
        }
        Ok(())
    }

    /// Additionally wait for every background flush already queued.
    pub async fn sync_flush(&self) -> Result<(), String> {
        let errs = self.ctx.shard_manager.wait_for_flush_completion().await;
        if errs.is_empty() {
            Ok(())
        } else {
            Err(format!("{errs:?}"))
        }
    }

    /// One deterministic compaction round on shard `s`: the body of
    /// compactor/background.rs minus the timer and the pressure gates.
    pub async fn compact(&self, s: usize) -> Value {
        let Some(h) = snel_db::verif_hooks::shards().into_iter().find(|h| h.id == s) else {
            return json!({"error": "no such shard"});
        };
        let index = match SegmentIndex::load(&h.base_dir).await {
            Ok(i) => i,
            Err(e) => return json!({"error": format!("load index: {e}")}),
        };
        let policy = KWayCountPolicy::default();
        let plans = CompactionPolicy::plan(&policy, &index);
        if plans.is_empty() {
            return json!({"plans": 0});
        }
        let plan_desc: Vec<Value> = plans
            .iter()
            .map(|p| json!({"uid": p.uid, "from": p.level_from, "to": p.level_to, "inputs": p.input_segment_labels, "out": p.output_segment_id}))
            .collect();
        let registry = Arc::new(tokio::sync::RwLock::new(match SchemaRegistry::new() {
            Ok(r) => r,
            Err(e) => return json!({"error": format!("registry: {e}")}),
        }));
        let handover = Arc::new(CompactionHandover::new(
            s as u32,
            h.base_dir.clone(),
            Arc::clone(&h.segment_ids),
            Arc::clone(&h.flush_lock),
        ));
        let worker = CompactionWorker::new(s as u32, h.base_dir.clone(), registry, handover);
        let res = tokio::spawn(async move { worker.run().await }).await;
        match res {
            Ok(Ok(())) => json!({"plans": plan_desc.len(), "plan": plan_desc, "ok": true}),
            Ok(Err(e)) => json!({"plans": plan_desc.len(), "plan": plan_desc, "ok": false, "error": e.to_string()}),
            Err(e) => json!({"plans": plan_desc.len(), "plan": plan_desc, "ok": false, "panic": e.to_string()}),
        }
    }

    pub async fn state(&self) -> Value {
        let mut out = Vec::new();
        let mut hs = snel_db::verif_hooks::shards();
        hs.sort_by_key(|h| h.id);
        for h in hs {
            let live = h.segment_ids.read().map(|g| g.clone()).unwrap_or_default();
            let mut inflight = h.inflight_segments.snapshot();
            inflight.sort();
            let passive = h.passive_buffers.non_empty().await;
            let mut passive_sizes = Vec::new();
            for p in &passive {
                match p.try_lock() {
                    Ok(g) => passive_sizes.push(g.len() as i64),
                    Err(_) => passive_sizes.push(-1),
                }
            }
            let mut dirs: Vec<String> = std::fs::read_dir(&h.base_dir)
                .map(|rd| {
                    rd.flatten()
                        .filter(|e| e.path().is_dir())
                        .map(|e| e.file_name().to_string_lossy().to_string())
                        .collect()
                })
                .unwrap_or_default();
            dirs.sort();
            let mut wal: Vec<String> = std::fs::read_dir(&h.wal_dir)
                .map(|rd| {
                    rd.flatten()
                        .map(|e| e.file_name().to_string_lossy().to_string())
                        .collect()
                })
                .unwrap_or_default();
            wal.sort();
            out.push(json!({
                "shard": h.id,
                "live": live,
                "inflight": inflight,
                "passive": passive_sizes,
                "index": fsmon::index_json(&h.base_dir),
                "dirs": dirs,
                "wal": wal,
            }));
        }
        Value::Array(out)
    }

    pub fn data_dir() -> PathBuf {
        PathBuf::from(&CONFIG.engine.data_dir)
    }

    pub fn wal_dir() -> PathBuf {
        PathBuf::from(&CONFIG.wal.dir)
    }

    pub fn fs(&self, hash: bool) -> Value {
        let mut shards = Vec::new();
        let mut hs = snel_db::verif_hooks::shards();
        hs.sort_by_key(|h| h.id);
        for h in hs {
            let live = h.segment_ids.read().map(|g| g.clone()).unwrap_or_default();
            let mut inflight = h.inflight_segments.snapshot();
            inflight.sort();
            shards.push(json!({
                "shard": h.id,
                "live": live,
                "inflight": inflight,
                "index": fsmon::index_json(&h.base_dir),
                "files": fsmon::manifest(&h.base_dir, hash),
                "wal": fsmon::manifest(&h.wal_dir, false),
            }));
        }
        Value::Array(shards)
    }

    /// Body of the ctrl-c handler in frontend/mod.rs (minus the listener wait).
    pub async fn shutdown(&self) -> Value {
        let registry = Arc::clone(&self.ctx.registry);
        let flush_errors = self.ctx.shard_manager.flush_all(registry).await;
        let shutdown_errors = self.ctx.shard_manager.shutdown_all().await;
        json!({"flush_errors": format!("{flush_errors:?}"), "shutdown_errors": format!("{shutdown_errors:?}")})
    }
}

/// Response sink of `exec`: a plain buffer, or (one shot, `@failwrite n`) a client that disappears after n bytes.
pub struct BreakableWriter {
    pub buf: Vec<u8>,
    pub limit: Option<usize>,
}

impl tokio::io::AsyncWrite for BreakableWriter {
    fn poll_write(
        mut self: std::pin::Pin<&mut Self>,
        _cx: &mut std::task::Context<'_>,
        data: &[u8],
    ) -> std::task::Poll<std::io::Result<usize>> {
        if let Some(limit) = self.limit {
            if self.buf.len() + data.len() > limit {
                return std::task::Poll::Ready(Err(std::io::Error::new(std::io::ErrorKind::BrokenPipe, "client went away (injected)")));
            }
        }
        self.buf.extend_from_slice(data);
        std::task::Poll::Ready(Ok(data.len()))
    }
    fn poll_flush(self: std::pin::Pin<&mut Self>, _cx: &mut std::task::Context<'_>) -> std::task::Poll<std::io::Result<()>> {
        std::task::Poll::Ready(Ok(()))
    }
    fn poll_shutdown(self: std::pin::Pin<&mut Self>, _cx: &mut std::task::Context<'_>) -> std::task::Poll<std::io::Result<()>> {
        std::task::Poll::Ready(Ok(()))
    }
}
