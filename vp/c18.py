"""C18 - event ids are unique and increase in append order within a shard.

(1) direct: EventIdGenerator::next under a scripted millisecond clock (vunit c18; the oracle runs online next to the generator);
(2) end to end: histories with bursts, FLUSH, compaction, crash and clean restarts with the hook clock standing still, jumping
    ahead or stepping back (also across the restart); after every step the event_id column of the whole store is read."""
import json
import os
import random
import subprocess

from . import gen
from .hist import Lifetimes, must_ok
from .node import write_config

VUNIT = os.path.join(os.path.dirname(os.path.dirname(os.path.abspath(__file__))), "target", "verif", "vunit")

RULE = ("(1) generator scripts: segments of 1-20000 calls under a clock that ticks every 1..100000 reads (bursts far above 4096 ids per "
        "millisecond, sequence wrap + wait for the next tick), idle gaps, backward steps of 1 ms - 1 h in the middle of a burst, restarts "
        "(fresh generator) with the clock ahead / equal / behind, all 1024 shard ids; online oracle: strictly increasing, never repeated, "
        "shard bits. (2) store histories: bursts up to 4500 events in one scripted millisecond on one shard, FLUSH, compaction, SIGKILL and "
        "clean restarts with the clock set forward or back; after every step QUERY and REPLAY read every event's id: globally unique, "
        "constant per event over time and tiers, increasing in apply order within the shard. distinct_nontrivial counts distinct "
        "(script family | history op, clock relation, tier) cells")


# ----------------------------------------------------------------------------------------------- (1) direct
def gen_script(rng):
    fam = rng.choice(["monotone", "burst", "burst_backstep", "backstep_long", "idle_gap", "restart_ahead", "restart_behind", "restart_same_ms",
                      "mixed"])
    t0 = rng.choice([1_609_459_200_000 + 4_000_000, 1_700_000_000_000, 1_900_000_000_000, 4_000_000_000_000])   # never before the id epoch (2021-01-01)
    ops = [{"op": "clock", "now": t0, "every": rng.choice([1, 2, 7, 50])}]
    if fam == "monotone":
        ops += [{"op": "gen", "calls": rng.randint(1000, 8000), "tag": "monotone"}]
    elif fam == "burst":
        ops[0]["every"] = rng.choice([4096, 4097, 5000, 20000, 100000])
        ops += [{"op": "gen", "calls": rng.randint(4097, 20000), "tag": "burst"}]
    elif fam == "burst_backstep":
        ops[0]["every"] = rng.choice([3000, 5000, 20000])
        ops += [{"op": "gen", "calls": rng.randint(100, 6000), "tag": "before_backstep"},
                {"op": "clock_delta", "delta": -rng.choice([1, 2, 10, 100, 1000]), "every": rng.choice([3000, 5000, 20000])},
                {"op": "gen", "calls": rng.randint(4097, 12000), "tag": "burst_while_clock_behind"}]
    elif fam == "backstep_long":
        ops += [{"op": "gen", "calls": rng.randint(10, 3000), "tag": "before_backstep"},
                {"op": "clock_delta", "delta": -rng.choice([1000, 60_000, 3_600_000]), "every": 1},
                {"op": "gen", "calls": rng.randint(10, 6000), "tag": "after_long_backstep"}]
    elif fam == "idle_gap":
        ops += [{"op": "gen", "calls": rng.randint(10, 3000), "tag": "before_gap"},
                {"op": "clock_delta", "delta": rng.choice([10 ** 6, 10 ** 9, 10 ** 11]), "every": rng.choice([1, 5000])},
                {"op": "gen", "calls": rng.randint(10, 6000), "tag": "after_gap"}]
    elif fam.startswith("restart"):
        delta = {"restart_ahead": rng.choice([1, 1000, 10 ** 7]), "restart_behind": -rng.choice([1, 50, 1000, 3_600_000]), "restart_same_ms": 0}[fam]
        ev = rng.choice([1, 5000])
        ops[0]["every"] = ev if fam != "restart_same_ms" else 100000
        ops += [{"op": "gen", "calls": rng.randint(5, 3000), "tag": "first_lifetime"}, {"op": "restart"},
                {"op": "clock_delta", "delta": delta, "every": ops[0]["every"]},
                {"op": "gen", "calls": rng.randint(5, 5000), "tag": "after_" + fam}]
    else:
        for _ in range(rng.randint(3, 8)):
            r = rng.random()
            if r < 0.3:
                ops.append({"op": "clock_delta", "delta": rng.choice([-1000, -1, 0, 1, 5, 10 ** 6]), "every": rng.choice([1, 100, 5000, 50000])})
            ops.append({"op": "gen", "calls": rng.randint(1, 9000), "tag": "mixed"})
    return fam, ops


def direct_task(task, wdir, res):
    rng = random.Random(task["seed"])
    cfg_path, _ = write_config(wdir)
    res.count("tasks")
    for i in range(task["scripts"]):
        fam, ops = gen_script(rng)
        shard = rng.choice([0, 1, 2, 3, 511, 512, 1023, rng.randint(0, 1023)])
        af = os.path.join(wdir, f"c18-{i}.json")
        with open(af, "w") as f:
            json.dump({"shard": shard, "ops": ops}, f)
        try:
            pr = subprocess.run([VUNIT, "c18", af], env=dict(os.environ, SNELDB_CONFIG=cfg_path), capture_output=True, timeout=300)
        except subprocess.TimeoutExpired:
            res.inconclusive.append(f"generator script {fam} did not finish in 300 s: {ops}")
            continue
        if pr.returncode != 0:
            res.violation("generator_died", {"family": fam}, pr.stderr.decode("utf-8", "replace")[-300:], {"seed": task["seed"], "script": i, "shard": shard, "ops": ops})
            continue
        out = json.loads(pr.stdout)
        res.evaluations += out["total"]
        res.count("ids_generated", out["total"])
        res.count("ticks_with_sequence_restart", out["ticks_with_sequence_restart"])
        res.count("calls_with_clock_behind_id", out["calls_with_clock_behind_id"])
        res.add_set("max_ids_per_ms_seen", min(out["max_ids_per_ms"], 4096))
        res.nontrivial(("direct", fam, "wrap" if out["max_ids_per_ms"] >= 4096 else "nowrap", "behind" if out["calls_with_clock_behind_id"] else "level"))
        for v in out["violations"][:3]:
            where = "first_call_after_restart" if v.get("first_call_of_lifetime") else ("after_restart" if v["lifetime"] > 1 else "within_lifetime")
            res.violation("id_" + v["kind"], {"monitor": "direct", "family": fam, "where": where},
                          f"shard {shard} script {fam}: call {v['call']} of op {v['op_index']} ({v['tag']}) returned id {v['id']} (ms {v['ms']} seq {v['seq']}) "
                          f"after {v['prev']}; clock read {v['clock_before']}", {"seed": task["seed"], "script": i, "shard": shard, "ops": ops})
        if i == 0:
            res.sample({"family": fam, "shard": shard, "ops": ops[:4], "summary": {k: v for k, v in out.items() if k != "violations"}})


# ----------------------------------------------------------------------------------------------- (2) end to end
def history_task(task, wdir, res):
    rng = random.Random(task["seed"])
    cfg = gen.gen_config(rng, shards=(1, 2, 3), zone=(2, 4, 8), fill=(2, 4, 50))
    big = task.get("big", False)
    if big:
        cfg.update(shard_count=1, event_per_zone=64, fill_factor=rng.choice([8, 200]))
    lt = Lifetimes(wdir, **cfg)
    node = lt.start()
    res.count("tasks"); res.count("histories")
    ctxs = [f"c{i}" for i in range(5)]
    clock = {"ms": 1_700_000_000_000, "hw": 0}
    events = {}          # k -> {"lt": lifetime, "rel": clock relation at the start of that lifetime, "ctx"}
    ids = {}             # k -> id first observed
    witness = {"seed": task["seed"], "config": cfg, "ops": []}
    life = {"n": 0, "rel": "first"}
    k = 0

    def op(t):
        witness["ops"].append(t)

    def set_clock(ms, every):
        clock["ms"] = ms
        node.meta(f"clock every {ms} {every}")

    def store(n, every):
        nonlocal k
        set_clock(clock["ms"], every)
        if life["rel"] is None:
            # relation of this lifetime's first id to the newest millisecond any stored id was drawn from: a fresh generator has
            # nothing to pin to, so a clock that is level with or behind the stored ids makes it fall back
            life["rel"] = "clock_ahead_of_stored_ids" if clock["ms"] > clock["hw"] + 1 else "clock_at_or_behind_stored_ids"
        for _ in range(n):
            k += 1
            c = rng.choice(ctxs) if not big else ctxs[0]
            # the payload carries fields named like system columns (DEFINE allows it): they must never stand in for the real ones
            must_ok(node.cmd(gen.store_cmd("ev", c, {"k": k, "event_id": k % 3, "timestamp": 7})), "store")
            events[k] = {"lt": life["n"], "rel": life["rel"], "ctx": c}
        clock["ms"] = node.meta("clock peek")["now"] or clock["ms"]
        clock["hw"] = max(clock["hw"], clock["ms"])
        node.sync()

    def observe(tag, tier):
        node.syncflush()
        rep = node.cmd("QUERY ev RETURN [k]", timeout=120)
        res.evaluations += 1
        w = dict(witness, when=tag)
        if rep.rows is None:
            res.violation("read_failed", {"monitor": "e2e"}, f"{tag}: {rep!r}", w)
            return
        rows = rep.dicts()
        seen = {}
        for r in rows:
            seen.setdefault(r.get("k"), []).append(r.get("event_id"))
        res.count("ids_observed", len(rows))
        rels = {e["rel"] for e in events.values()}
        sigbase = {"monitor": "e2e", "some_lifetime_started_at_or_behind_stored_ids": "clock_at_or_behind_stored_ids" in rels, "tier": tier}
        res.nontrivial(("e2e", tag.split(":")[0], "+".join(sorted(rels)), tier))
        # constant id per event (a changed id = a synthetic or regenerated id)
        for kk, lst in seen.items():
            if kk in ids and any(i != ids[kk] for i in lst):
                res.violation("event_id_changed", sigbase, f"{tag}: k={kk} had id {ids[kk]}, now {lst}", w)
            ids.setdefault(kk, lst[0])
        # newest millisecond any stored id was drawn from (a generator pinned by a backward step runs ahead of the clock)
        for i in ids.values():
            if isinstance(i, int):
                clock["hw"] = max(clock["hw"], (i >> 22) + 1_609_459_200_000)
        # uniqueness over distinct events
        by_id = {}
        for kk, i in ids.items():
            by_id.setdefault(i, []).append(kk)
        for i, ks in by_id.items():
            if len(ks) > 1:
                rel = "+".join(sorted({events[x]["rel"] for x in ks if x in events}))
                res.violation("two_events_one_id", dict(sigbase, pair_relation=rel, same_lifetime=len({events[x]["lt"] for x in ks if x in events}) == 1),
                              f"{tag}: events k={ks[:4]} share id {i}", w)
                break
        # per shard: ids increase in apply order (k order: one writer)
        per_shard = {}
        for kk in sorted(ids):
            i = ids[kk]
            if not isinstance(i, int):
                continue
            per_shard.setdefault((i >> 12) & 0x3ff, []).append((kk, i))
        for sh, lst in per_shard.items():
            for (k1, i1), (k2, i2) in zip(lst, lst[1:]):
                if i2 <= i1:
                    same = events[k1]["lt"] == events[k2]["lt"]
                    res.violation("ids_not_in_apply_order", dict(sigbase, same_lifetime=same, later_lifetime_clock=events[k2]["rel"]),
                                  f"{tag}: shard {sh}: k={k1} id {i1} then k={k2} id {i2} (lifetimes {events[k1]['lt']},{events[k2]['lt']}, "
                                  f"clock at the later lifetime's start: {events[k2]['rel']})", w)
                    break
        # nothing lost by dedup: every stored event of a clean history is returned once (crash losses are C01's business)
        if not task.get("crash"):
            missing = [x for x in events if x not in seen]
            dup = [x for x, lst in seen.items() if len(lst) > 1]
            if missing or dup:
                shared = any(len(v) > 1 for v in by_id.values())
                res.violation("event_merged_or_repeated", dict(sigbase, direction="missing" if missing else "repeated", two_events_share_an_id=shared),
                              f"{tag}: missing k={missing[:6]} repeated k={dup[:6]} of {len(events)} events", w)

    try:
        must_ok(node.cmd('DEFINE ev FIELDS { k: "int", event_id: "int", timestamp: "int" }'), "define")
        set_clock(clock["ms"], 3)
        for step in range(task["steps"]):
            r = rng.random()
            if r < 0.45:
                if big and rng.random() < 0.5:
                    n = rng.randint(4200, 4500); every = 100000
                    op(f"burst {n} in one ms")
                else:
                    n = rng.randint(1, 40); every = rng.choice([1, 3, 50, 100000])
                    op(f"store {n} every={every}")
                store(n, every)
                observe(f"store:{step}", "mem_or_mixed")
            elif r < 0.55:
                d = rng.choice([-3_600_000, -1000, -5, -1, 0, 1, 10 ** 6])
                op(f"clock {d:+d} ms")
                clock["ms"] = max(1_609_459_200_001, (node.meta("clock peek")["now"] or clock["ms"]) + d)
                set_clock(clock["ms"], 3)
            elif r < 0.67:
                op("flush"); must_ok(node.cmd("FLUSH", timeout=120), "flush"); observe(f"flush:{step}", "l0")
            elif r < 0.77:
                op("compact"); node.syncflush(); lt.compact_all(1); observe(f"compact:{step}", "compacted")
            else:
                crash = task.get("crash") and rng.random() < 0.6
                d = rng.choice([-3_600_000, -1000, -1, 0, 1, 5000])
                now = node.meta("clock peek")["now"] or clock["ms"]
                op(("kill" if crash else "restart") + f" clock {d:+d} ms")
                if crash:
                    node.sync()
                    node = lt.restart_kill()
                else:
                    node = lt.restart_clean()
                life["n"] += 1
                clock["ms"] = max(1_609_459_200_001, now + d)
                life["rel"] = None        # decided at the lifetime's first id (the clock may still be moved before it)
                set_clock(clock["ms"], 3)
                observe(f"restart:{step}", "recovered" if crash else "restart")
        observe("final", "final")
        res.sample({"config": gen.cfg_desc(cfg), "ops": witness["ops"][:12], "events": len(events)})
    finally:
        lt.stop()


def _dispatch(task, wdir, res):
    (direct_task if task["kind"] == "direct" else history_task)(task, wdir, res)


def run(run):
    quick = run.tier == "quick"
    tasks = [{"name": f"d{i}", "kind": "direct", "seed": run.rng("d", i).getrandbits(44), "scripts": 12 if quick else 60} for i in range(16 if quick else 64)]
    nh = 24 if quick else 400
    for i in range(nh):
        tasks.append({"name": f"h{i}", "kind": "history", "seed": run.rng("h", i).getrandbits(44), "steps": 10 if quick else 16,
                      "crash": i % 2 == 1, "big": i % 8 == 0})
    run.min_distinct = 30
    run.assumptions = ["the hook clock feeds both the id generator and the STORE timestamp; it ticks after a fixed number of reads so that the "
                       "generator's wait for the next millisecond terminates", "one writer: apply order within a shard = issue order",
                       "crash histories: membership is not asserted here (C01), ids of the surviving events are"]
    run.parallel(_dispatch, tasks)
    if run.tier == "thorough" or os.environ.get("VERIF_MIRI"):
        miri_layer(run)


def miri_layer(run):
    """Sanitizer layer: two short generator scripts (sequence wrap + wait, backward step, restart) under Miri."""
    import tempfile
    scripts = [[{"op": "clock", "now": 1_700_000_000_000, "every": 4200}, {"op": "gen", "calls": 4300, "tag": "burst"},
                {"op": "clock_delta", "delta": -3, "every": 2200}, {"op": "gen", "calls": 4200, "tag": "burst_while_clock_behind"}],
               [{"op": "clock", "now": 1_700_000_000_000, "every": 1}, {"op": "gen", "calls": 300, "tag": "monotone"}, {"op": "restart"},
                {"op": "clock_delta", "delta": 5, "every": 3}, {"op": "gen", "calls": 300, "tag": "after_restart_ahead"}]]
    for i, ops in enumerate(scripts):
        with tempfile.NamedTemporaryFile("w", suffix=".json", delete=False, dir=run.scratch) as f:
            json.dump({"shard": 5, "ops": ops}, f)
        try:
            pr = subprocess.run([os.path.join(os.path.dirname(VUNIT), "..", "..", "san", "miri_c18.sh"), f.name], capture_output=True, text=True, timeout=3000)
        except subprocess.TimeoutExpired:
            run.result.notes.append("sanitizer layer (Miri, C18 generator): timed out - not counted")
            continue
        if pr.returncode == 3:
            run.result.notes.append("sanitizer layer (Miri, C18 generator): Miri cannot run here - not run: " + pr.stderr[-200:])
            run.result.count("miri_layer_not_run")
        elif pr.returncode == 1:
            run.result.violation("sanitizer_report", {"tool": "miri"}, f"script {i}: {pr.stdout[-600:]}", {"ops": ops})
        else:
            try:
                out = json.loads(pr.stdout.strip().splitlines()[-1])
                run.result.count("miri_ids_generated", out["total"])
                for v in out["violations"][:2]:
                    run.result.violation("id_" + v["kind"], {"monitor": "direct", "family": "miri_script", "where": "within_lifetime"}, str(v), {"ops": ops})
            except Exception:
                run.result.notes.append("sanitizer layer (Miri): output not parsed: " + pr.stdout[-200:])


def replay(run, path):
    with open(path) as f:
        w = json.load(f)["witness"]
    if "script" in w:
        run.parallel(_dispatch, [{"name": "replay", "kind": "direct", "seed": w["seed"], "scripts": w["script"] + 1}], nproc=1)
    else:
        run.parallel(_dispatch, [{"name": "replay", "kind": "history", "seed": w["seed"], "steps": len(w["ops"]), "crash": True, "big": w["config"].get("event_per_zone") == 64}], nproc=1)
